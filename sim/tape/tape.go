// Package tape implements the choice tape: the single source of nondeterminism of a
// simulated run. Every decision of a run (application shape, configuration, inputs,
// faults, schedule) is a Draw. A run is a pure function of its tape.
package tape

import "fmt"

// Block marks a logical unit of draws [Start,End) used by the shrinker.
type Block struct {
	Start int    `json:"s"`
	End   int    `json:"e"`
	Label string `json:"l"`
}

type Tape struct {
	vals   []uint64
	pos    int
	state  uint64 // splitmix64 state
	replay bool   // true: draws past the end return 0 (no PRNG)
	blocks []Block
	stack  []int // indices into blocks of open blocks
	Limit  int   // maximum number of draws; past it every draw is 0
}

func splitmix(s *uint64) uint64 {
	*s += 0x9e3779b97f4a7c15
	z := *s
	z = (z ^ (z >> 30)) * 0xbf58476d1ce4e5b9
	z = (z ^ (z >> 27)) * 0x94d049bb133111eb
	return z ^ (z >> 31)
}

// Mix derives the PRNG seed of run i of a property from the user-visible seed.
func Mix(seed uint64, prop string, run uint64) uint64 {
	s := seed*0x9e3779b97f4a7c15 + 0x1234567
	for i := 0; i < len(prop); i++ {
		s = (s ^ uint64(prop[i])) * 0x100000001b3
	}
	s ^= run * 0xd6e8feb86659fd93
	x := s
	splitmix(&x)
	return splitmix(&x)
}

// NewSeeded returns a tape that grows from a PRNG.
func NewSeeded(seed uint64) *Tape {
	return &Tape{state: seed, Limit: 200000}
}

// NewReplay returns a tape that replays vals and yields 0 past the end.
func NewReplay(vals []uint64) *Tape {
	v := make([]uint64, len(vals))
	copy(v, vals)
	return &Tape{vals: v, replay: true, Limit: 200000}
}

// Draw returns a value in [0,n). n==0 or 1 returns 0 but still consumes a slot, so
// that the tape layout does not depend on n.
func (t *Tape) Draw(n uint64) uint64 {
	var v uint64
	if t.pos >= t.Limit {
		return 0
	}
	if t.pos < len(t.vals) {
		v = t.vals[t.pos]
		if n > 1 {
			v %= n
		} else {
			v = 0
		}
		t.vals[t.pos] = v
	} else {
		if t.replay {
			v = 0
		} else {
			v = splitmix(&t.state)
			if n > 1 {
				v %= n
			} else {
				v = 0
			}
		}
		t.vals = append(t.vals, v)
	}
	t.pos++
	return v
}

// Int returns a value in [0,n).
func (t *Tape) Int(n int) int {
	if n <= 0 {
		t.Draw(1)
		return 0
	}
	return int(t.Draw(uint64(n)))
}

// Range returns a value in [lo,hi] (inclusive); lo is the simplest.
func (t *Tape) Range(lo, hi int) int {
	if hi < lo {
		hi = lo
	}
	return lo + t.Int(hi-lo+1)
}

// Chance is true with probability num/den; false is the simplest.
func (t *Tape) Chance(num, den int) bool {
	v := t.Int(den)
	return v >= den-num
}

// Pick returns an index weighted by w; index 0 is the simplest. Weights of 0 are never picked.
func (t *Tape) Weighted(w ...int) int {
	tot := 0
	for _, x := range w {
		tot += x
	}
	if tot == 0 {
		t.Draw(1)
		return 0
	}
	v := t.Int(tot)
	for i, x := range w {
		if v < x {
			return i
		}
		v -= x
	}
	return len(w) - 1
}

func (t *Tape) Begin(label string) {
	t.blocks = append(t.blocks, Block{Start: t.pos, End: -1, Label: label})
	t.stack = append(t.stack, len(t.blocks)-1)
}

func (t *Tape) End() {
	if len(t.stack) == 0 {
		panic("tape: End without Begin")
	}
	i := t.stack[len(t.stack)-1]
	t.stack = t.stack[:len(t.stack)-1]
	t.blocks[i].End = t.pos
}

// Pos is the number of draws consumed.
func (t *Tape) Pos() int { return t.pos }

// Used returns the consumed prefix of the tape (canonical values).
func (t *Tape) Used() []uint64 {
	v := make([]uint64, t.pos)
	copy(v, t.vals[:t.pos])
	return v
}

// Blocks returns the closed blocks recorded so far (open ones are closed at Pos).
func (t *Tape) Blocks() []Block {
	out := make([]Block, 0, len(t.blocks))
	for _, b := range t.blocks {
		if b.End < 0 {
			b.End = t.pos
		}
		if b.End > b.Start {
			out = append(out, b)
		}
	}
	return out
}

func (t *Tape) String() string {
	return fmt.Sprintf("tape(pos=%d len=%d replay=%v)", t.pos, len(t.vals), t.replay)
}

// Preload fixes the first draws of a seeded tape (values are reduced modulo n when drawn).
func (t *Tape) Preload(v []uint64) {
	if t.pos != 0 || len(t.vals) != 0 {
		panic("tape: Preload on a used tape")
	}
	t.vals = append(t.vals, v...)
}
