package checks

import (
	"fmt"
	"os"
	"os/exec"
	"path/filepath"
	"strings"

	"git.defalsify.org/vise.git/vm"

	"visim/app"
	"visim/core"
	"visim/world"
)

func init() {
	core.Register(&core.Check{
		ID:    "C15",
		Level: "fault_enumeration",
		Rule: "storage-corruption fault on reads of bytecode records: one run = one generated straight-line program using all twelve opcodes (random symbols, selectors, 1-3 byte integers) whose stored record is damaged in EVERY way of the catalogue - truncation at every byte, every byte replaced by each of {0x00, 0xff, b+1, b-1, 0x01, 0x05, 0x0c, 0x0d}, garbage appended - and then read by two consumers: the engine/VM (two requests drive it through every instruction) and an operator running the disassembler; " +
			"an independent decoder classifies each damaged record as a sequence of complete valid instructions or as malformed at instruction i; non-trivial = the damage made the record malformed; distinct = distinct (malformation kind, instruction opcode) pairs per program",
		Runs:       map[string]int{"quick": 240, "thorough": 30000},
		MaxSeconds: map[string]int{"quick": 45, "thorough": 900},
		Run:        runC15,
		Assumptions: []string{
			"claimed only in the form a storage fault can express: damaged VALID programs reaching the VM and the disassembler through the store seam; 'all byte strings up to length n' and coverage-guided fuzzing are enumeration/fuzzing and are not done here",
			"NOOP (opcode 0) is a defined opcode that is not an instruction of the language; records that decode to a NOOP are not judged",
			"for damage other than pure truncation the VM is only required not to panic and not to report success past a malformed instruction (earlier instructions may have changed meaning)",
		},
		Real:        []string{"vm (decoder, runner, disassembler)", "engine", "state", "cache", "render", "resource", "dev/disasm (the repository's disassembler executable, run as a process on real files for the long records)"},
		Stub:        []string{"store handing back the damaged record (application table)", "independent decoder refcodec (oracle)", "client", "external functions"},
		HangSeconds: 120, // single runs of this check take seconds, more on a loaded machine
		FaultKinds:  []string{"record_corrupt:truncate", "record_corrupt:replace", "record_corrupt:append"},
		Post: func(cov map[string]interface{}) {
			cov["exhaustive_note"] = "per program the damage catalogue is enumerated completely; programs are sampled"
		},
	})
}

// c15Sel is the selector the generated programs route on and the client sends: a token that no error text of
// the library contains by accident.
const c15Sel = "zq7"

func genSym(t interface{ Range(int, int) int }, pfx string) string {
	n := t.Range(1, 10)
	return pfx + strings.Repeat("x", n)[:n-1] + "q"
}

func runC15(c *core.Ctx) *core.Outcome {
	t := c.T
	o := core.NewOutcome()
	t.Begin("program")
	sa := genSym(t, "s")
	la, lb, lc := genSym(t, "l"), genSym(t, "m"), genSym(t, "n")
	size := uint32([]int{5, 40, 300, 70000, 255, 256}[t.Int(6)])
	flagA := uint32(8 + t.Int(3))
	flagB := uint32([]int{9, 40, 300}[t.Int(3)])
	selN := []string{"11", "9", "next1"}[t.Int(3)]
	selP := []string{"22", "8", "p"}[t.Int(3)]
	var code []app.Inst
	code = append(code, app.Inst{Op: app.LOAD, A: sa, N: size})
	code = append(code, app.Inst{Op: app.MAP, A: sa})
	code = append(code, app.Inst{Op: app.RELOAD, A: sa})
	// a second symbol whose name begins with the first one's: an instruction cut inside the longer name
	// leaves bytes that spell a symbol that exists
	sLong := ""
	if t.Chance(1, 2) {
		sLong = sa + []string{"zz", "_2", "q"}[t.Int(3)]
		code = append(code, app.Inst{Op: app.LOAD, A: sLong, N: 40})
		code = append(code, app.Inst{Op: app.MAP, A: sLong})
		o.Probes["symbol_name_that_extends_another"]++
	}
	code = append(code, app.Inst{Op: app.MOUT, A: la, B: "0"})
	code = append(code, app.Inst{Op: app.MNEXT, A: lb, B: selN})
	code = append(code, app.Inst{Op: app.MPREV, A: lc, B: selP})
	code = append(code, app.Inst{Op: app.CATCH, A: "nb", N: flagA, M: true})
	code = append(code, app.Inst{Op: app.CROAK, N: flagB, M: true})
	if t.Chance(1, 2) {
		code = append(code, app.Inst{Op: app.MSINK})
	}
	if t.Chance(1, 4) {
		// a long record (> 255 bytes), so that a damaged length byte of 0xff still points inside it
		for k := 0; k < 12; k++ {
			code = append(code, app.Inst{Op: app.MOUT, A: fmt.Sprintf("label%dxxxxxxxxxxxxxxxx", k), B: fmt.Sprintf("%d", 50+k)})
		}
		o.Probes["long_record"]++
	}
	code = append(code, app.Inst{Op: app.HALT})
	code = append(code, app.Inst{Op: app.INCMP, A: "nb", B: "zz"})
	if t.Chance(1, 2) {
		if t.Chance(1, 2) {
			code = append(code, app.Inst{Op: app.INCMP, A: "nc", B: c15Sel})
		} else {
			// the matching line leads to a node WITHOUT code, so nothing is appended behind the
			// following INCMP line, which is decoded (and skipped) while a match is held
			code = append(code, app.Inst{Op: app.INCMP, A: "ne", B: c15Sel})
			code = append(code, app.Inst{Op: app.INCMP, A: "nb", B: "9"})
			o.Probes["incmp_after_matching_line"]++
		}
	} else {
		code = append(code, app.Inst{Op: app.MOVE, A: "nc"})
	}
	t.End()
	a := &app.App{Root: "root", Labels: map[string]map[string]string{}}
	// in a third of the runs the external function fails on its first call: the session visits the
	// catch node once before it gets to the damaged part of the record
	priorFail := t.Chance(1, 3)
	script := []app.ExtBehav{{Len: 4}}
	if priorFail {
		script = []app.ExtBehav{{Err: true, Len: -1}, {Len: 4}, {Len: 4}, {Len: 4}}
		o.Probes["external_failure_before_the_damage"]++
	}
	a.Ext = []*app.ExtSym{{Name: sa, Size: size, Script: script}}
	if sLong != "" {
		a.Ext = append(a.Ext, &app.ExtSym{Name: sLong, Size: 40, Script: []app.ExtBehav{{Len: 3}}})
	}
	a.Nodes = append(a.Nodes, &app.Node{Name: "root", Code: code, Tpl: map[string]string{"": "@root| " + sa + "=[{{." + sa + "}}]$"}})
	for _, n := range []string{"nb", "nc"} {
		a.Nodes = append(a.Nodes, &app.Node{Name: n, Code: []app.Inst{{Op: app.HALT}, {Op: app.INCMP, A: "_", B: "*"}}, Tpl: map[string]string{"": "@" + n + "|$"}})
	}
	a.Nodes = append(a.Nodes, &app.Node{Name: "ne", Code: nil, Tpl: map[string]string{"": "@ne|$"}})
	a.Nodes = append(a.Nodes, &app.Node{Name: "_catch", Kind: app.KCatch, Code: []app.Inst{{Op: app.HALT}, {Op: app.MOVE, A: "_"}}, Tpl: map[string]string{"": "@_catch|oops$"}})
	a.Index()
	good, _ := a.Bytecode("root")
	cfg := world.Cfg{FlagCount: 300, Backend: world.BackMem}
	var vios []*core.Violation
	seen := map[string]bool{}
	addV := func(class string, attrs map[string]string, format string, args ...interface{}) {
		v := &core.Violation{Class: class, Attrs: attrs, Msg: fmt.Sprintf(format, args...)}
		if seen[v.Sig()] || len(vios) > 20 {
			return
		}
		seen[v.Sig()] = true
		vios = append(vios, v)
	}
	malformed := 0
	check := func(kind string, desc string, b []byte) {
		o.Counts["damages"]++
		o.Faults["record_corrupt:"+kind]++
		insts, offs, derr := app.Decode(b)
		hasNoop := false
		for _, in := range insts {
			if in.Op == app.NOOP {
				hasNoop = true
			}
		}
		if derr != nil {
			malformed++
			op := "?"
			if derr.At+2 <= len(b) {
				op = fmt.Sprint(int(b[derr.At])<<8 | int(b[derr.At+1]))
			}
			o.States = append(o.States, h64(derr.Why, op))
		}
		// reader 1: the disassembler
		var text string
		var err error
		pm, pat := world.Guard(func() { text, err = vm.NewParseHandler().WithDefaultHandlers().ToString(b) })
		_ = text
		switch {
		case pm != "":
			addV("panic:"+pat, map[string]string{"reader": "disassembler", "site": pat}, "disassembling the record damaged by %s panicked in %s: %s (record %x)", desc, pat, pm, b)
		case hasNoop || len(b) == 0:
		case derr != nil && err == nil:
			addV("disassembler-accepts-malformed", map[string]string{"why": derr.Why}, "the record damaged by %s is malformed (%v) but the disassembler reports success: %q (record %x)", desc, derr, text, b)
		case derr == nil && err != nil:
			addV("disassembler-rejects-valid", nil, "the record damaged by %s is a sequence of %d complete valid instructions but the disassembler fails: %v (record %x)", desc, len(insts), err, b)
		}
		// reader 2: the engine / VM
		w := world.New(a.WithBytecode("root", b), cfg)
		s := w.NewSession("s", false)
		okRequests := 0
		var lastErr string
		moved := false
		reqs := [][]byte{nil, []byte(c15Sel)}
		if priorFail {
			reqs = [][]byte{nil, []byte("0"), []byte(c15Sel)} // catch node, back to the root record, on
		}
		for ri, in := range reqs {
			st := s.Request(in, false)
			o.Counts["requests"]++
			if st.Panic == "" && st.ExecErr == "" && derr != nil && !hasNoop {
				// whatever else happens, a decoding failure must not come back as a successful request
				// whose page merely quotes it: the only error texts a page of this application may carry
				// are the failed external call and the unmatched input
				// (recognised by what they show, not by their wording: the failed call's line names the symbol, the
				// unmatched input's line shows the input - a token no decoding error text contains)
				if pfx := app.ParsePage(st.Out).Prefix; pfx != "" && !strings.Contains(pfx, sa) && !(len(in) > 0 && strings.Contains(pfx, string(in))) {
					addV("vm-decode-error-shown-as-page", map[string]string{"why": derr.Why}, "the record damaged by %s is malformed at instruction %d (%s); request %d reports success and its page carries the error text %q (record %x)", desc, derr.Inst, derr.Why, ri, pfx, b)
					return
				}
			}
			if st.Panic != "" {
				if decodingSite(st.PanicAt) {
					addV("panic:"+st.PanicAt, map[string]string{"reader": "vm", "site": st.PanicAt}, "executing the record damaged by %s panicked in %s on request %d: %s (record %x)", desc, st.PanicAt, ri, st.Panic, b)
				} else {
					// a record that decodes but breaks the application's well-formedness (flag out of
					// range, move into the node on top, ...): execution semantics, not decoding
					o.Probes["panic_outside_decoding"]++
				}
				return
			}
			if st.ExecErr != "" {
				lastErr = st.ExecErr
				// the malformed tail must not come back as pending code: whatever the client sends next, the
				// session does not go on from inside the instruction that was just refused
				if derr != nil && !hasNoop && !moved {
					nx := s.Request([]byte(c15Sel), false)
					o.Counts["requests"]++
					if nx.Panic == "" && nx.ExecErr == "" && nx.Cont {
						addV("vm-resumes-after-malformed-instruction", map[string]string{"why": derr.Why}, "the record damaged by %s is malformed at instruction %d (%s); request %d failed with %q, but the next request on the same engine succeeded (output %s): execution went on behind the rejected instruction (record %x)", desc, derr.Inst, derr.Why, ri, st.ExecErr, short(nx.Out), b)
						return
					}
				}
				break
			}
			okRequests++
			for mi, mv := range st.Moves {
				if ri == 0 && mi == 0 {
					continue // the initial fetch of the (damaged) root record
				}
				if bc, _ := a.Bytecode(mv); len(bc) > 0 {
					moved = true // code was appended behind the pending bytes: the tail is no longer what was stored
				}
			}
			if derr != nil && !hasNoop && !moved && s.St != nil {
				// no success past a malformed instruction: the malformed tail must still be pending
				tail := len(b) - derr.At
				if len(s.St.Code) < tail && st.Cont {
					addV("vm-passed-malformed-instruction", map[string]string{"why": derr.Why}, "the record damaged by %s is malformed at instruction %d (byte %d, %s) but after request %d only %d bytes are pending: the VM reported success past it (record %x)", desc, derr.Inst, derr.At, derr.Why, ri, len(s.St.Code), b)
					return
				}
			}
			if !st.Cont {
				if derr != nil && !hasNoop && !moved {
					addV("vm-passed-malformed-instruction", map[string]string{"why": derr.Why}, "the record damaged by %s is malformed at instruction %d (%s) but the session ended without an error on request %d (record %x)", desc, derr.Inst, derr.Why, ri, b)
				}
				return
			}
		}
		_ = offs
		if kind == "truncate" && derr != nil && !hasNoop && lastErr == "" && !moved {
			addV("vm-no-error-on-truncated-record", map[string]string{"why": derr.Why}, "the record truncated by %s ends in the middle of instruction %d (%s); two requests executed it without any error (record %x)", desc, derr.Inst, derr.Why, b)
		}
	}
	for k := 0; k < len(good); k++ {
		check("truncate", fmt.Sprintf("truncation to %d of %d bytes", k, len(good)), good[:k])
	}
	for j := 0; j < len(good); j++ {
		orig := good[j]
		for _, v := range []byte{0x00, 0xff, orig + 1, orig - 1, 0x01, 0x05, 0x0c, 0x0d} {
			if v == orig {
				continue
			}
			b := append([]byte(nil), good...)
			b[j] = v
			check("replace", fmt.Sprintf("byte %d replaced %02x->%02x", j, orig, v), b)
		}
	}
	for _, g := range [][]byte{{0x00}, {0x00, 0x0d}, {0xff}, {0x00, 0x03, 0x02}, {0x00, 0x03, 0x02, 0x61, 0x62, 0x05}, {0x00, 0x08, 0x01}, {0x00, 0x07, 0x00}} {
		check("append", fmt.Sprintf("%x appended", g), append(append([]byte(nil), good...), g...))
	}
	// the same damages at the end of a LONG record: a drawn number of complete valid instructions (a
	// CATCH on a flag that is never set does nothing) in front of the program. Neither reader may stop
	// looking after some number of instructions.
	if t.Chance(1, 2) {
		n := []int{300, 1000, 1023, 1024, 1025, 2500, 9000, 70000}[t.Int(8)]
		var pre []app.Inst
		for i := 0; i < n; i++ {
			pre = append(pre, app.Inst{Op: app.CATCH, A: "nb", N: 8 + uint32((int(flagA)-8+1)%3), M: true})
		}
		pb := app.EncodeAll(pre)
		o.Probes["long_prefix"]++
		o.Probes[fmt.Sprintf("long_prefix_%d_instructions", n)]++
		long := func(tail []byte) []byte { return append(append([]byte(nil), pb...), tail...) }
		// reader 3, for these long records: the repository's disassembler executable (dev/disasm), run on a
		// file on the real file system. Exit status 0 is "processed a sequence of complete, valid instructions"
		exe := func(desc string, b []byte) {
			insts, _, derr := app.Decode(b)
			for _, in := range insts {
				if in.Op == app.NOOP {
					return
				}
			}
			ok, msg := runDisasm(b)
			if msg != "" {
				panic("C15 harness: cannot run the disassembler executable: " + msg)
			}
			o.Counts["disasm_executable_runs"]++
			if derr != nil && ok {
				addV("disassembler-accepts-malformed", map[string]string{"why": derr.Why, "reader": "dev/disasm"}, "the record damaged by %s (%d bytes) is malformed (%v) but the disassembler executable exits with status 0", desc, len(b), derr)
			}
			if derr == nil && !ok {
				addV("disassembler-rejects-valid", map[string]string{"reader": "dev/disasm"}, "the record damaged by %s (%d bytes) is a sequence of %d complete valid instructions but the disassembler executable fails", desc, len(b), len(insts))
			}
		}
		check("append", fmt.Sprintf("nothing, behind %d valid instructions", n), long(good))
		for i := 0; i < 3; i++ {
			k := t.Range(1, len(good)-1)
			check("truncate", fmt.Sprintf("truncation to %d of %d bytes behind %d valid instructions", k, len(good), n), long(good[:k]))
		}
		check("append", fmt.Sprintf("ffff appended behind %d valid instructions", n), long([]byte{0xff, 0xff}))
		exe(fmt.Sprintf("nothing, behind %d valid instructions", n), long(good))
		exe(fmt.Sprintf("ffff appended behind %d valid instructions", n), long([]byte{0xff, 0xff}))
		exe(fmt.Sprintf("a cut in the last of %d valid instructions", n), pb[:len(pb)-1])
		exe(fmt.Sprintf("truncation to %d of %d bytes behind %d valid instructions", len(good)/2, len(good), n), long(good[:len(good)/2]))
		check("append", fmt.Sprintf("0003 02 appended behind %d valid instructions", n), long([]byte{0x00, 0x03, 0x02}))
		check("truncate", fmt.Sprintf("a cut in the last of %d valid instructions", n), pb[:len(pb)-1])
	}
	o.Nontrivial = malformed > 0
	o.TraceHash = h64(fmt.Sprintf("%x", good), o.Counts["damages"], malformed)
	o.Counts["sim_ticks"] = o.Counts["requests"]
	if len(vios) > 0 {
		o.V = vios[0]
		o.Also = vios[1:]
	}
	if c.WantScenario || o.V != nil {
		var lines []string
		for _, in := range code {
			lines = append(lines, in.String())
		}
		o.Scenario = map[string]interface{}{"program": strings.Join(lines, "; "), "record": fmt.Sprintf("%x", good), "damages": o.Counts["damages"], "malformed": malformed}
	}
	return o
}

// decodingSite reports whether a panic site belongs to the VM's instruction decoding.
func decodingSite(at string) bool {
	for _, f := range []string{"vm.parse", "vm.Parse", "vm.intSplit", "vm.instructionSplit", "vm.opSplit", "vm.(*ParseHandler)", "vm.NewLine"} {
		if strings.Contains(at, f) {
			return true
		}
	}
	return false
}

// runDisasm writes a record to a scratch file on the real file system and runs the repository's
// disassembler executable (built next to the simulator by build.sh) on it. ok = exit status 0.
func runDisasm(b []byte) (ok bool, infra string) {
	self, err := os.Executable()
	if err != nil {
		return false, err.Error()
	}
	bin := filepath.Join(filepath.Dir(self), "vise-disasm")
	if _, err := os.Stat(bin); err != nil {
		return false, "missing " + bin + " (build.sh builds it)"
	}
	f, err := os.CreateTemp("", "visim-c15-*.bin")
	if err != nil {
		return false, err.Error()
	}
	defer os.Remove(f.Name())
	if _, err := f.Write(b); err != nil {
		f.Close()
		return false, err.Error()
	}
	f.Close()
	cmd := exec.Command(bin, f.Name())
	cmd.Stdout, cmd.Stderr = nil, nil
	err = cmd.Run()
	if err == nil {
		return true, ""
	}
	if _, isExit := err.(*exec.ExitError); isExit {
		return false, ""
	}
	return false, err.Error()
}
