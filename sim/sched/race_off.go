//go:build !race

package sched

const Race = false

func raceOff() {}
func raceOn()  {}
