#!/usr/bin/env python3
"""Writes /verif/MANIFEST.json from the table below (single source of truth for the interface)."""
import json, os

V = os.path.dirname(os.path.dirname(os.path.abspath(__file__)))

TECH = "deterministic simulation with fault injection: "

checks = {
 "C01": dict(level="exploration", design="§4 C01",
   technique=TECH + "seeded histories with restarts, failing external calls and client garbage; size invariant on every Flush plus unsized differential twin",
   text="Seeded search over generated applications, contents, page indices and input histories with the output size drawn around the unlimited page lengths; invariant len(output) <= OutputSize on every page handed to the client, and comparison with an unsized twin at the same position to rule out silent truncation. Sampling, not proof.",
   note="Trusted: output parser over sentinel-delimited generated templates; scripted external functions. One known finding (exit value appended without size check) is listed in known_findings.json and reported as KNOWN-FINDING."),
 "C08": dict(level="exploration", design="§4 C08",
   technique=TECH + "junk-heavy client histories with restarts and failing external calls over generated and example applications; recover() + consistency invariants + save/load/continue probe",
   text="Seeded search over well-formed generated applications and the repository's examples (assembled with the real assembler), all modes and backends; the first requests of every example are swept systematically over its selector alphabet plus junk. Any panic of library code and any violated consistency invariant after a request is a violation. Sampling beyond the sweep depth.",
   note="Trusted: well-formedness validator of the generator (targets exist, _catch defined, flags in range, no self-move, HALT on every move cycle); simfs/pgfake stubs for the fs and Postgres backends."),
 "C17": dict(level="exploration", design="§4 C17",
   technique=TECH + "client-garbage injection into histories, with/without differential twins, snapshot comparison before/after refused requests",
   text="Seeded search over histories with refusal candidates and Flush-without-Exec probes inserted at drawn positions, long-lived and persisted operation on every backend; a refused request must produce no output, run no code, leave the live and the stored session unchanged, and the twin without the refused requests must see identical results. Sampling, not proof.",
   note="Trusted: harness gateway; candidates the engine accepts are not refusals and end the comparison (counted)."),
 "C07": dict(level="exploration", design="§4 C07",
   technique=TECH + "seeded restart injection at request boundaries, differential twins (long-lived / persisted / mixed), tape shrinking",
   text="Seeded search over generated applications, configurations and input histories; every history is served by three twins of the real engine (one long-lived engine, a fresh engine+persister+store handle per request, fresh at a drawn subset) and all client-visible results must agree request by request. Sampling, not proof; no model of the VM is involved, so the check cannot mis-model the code.",
   note="Trusted: the harness gateway (Exec/Flush/Finish order as in examples/http), scripted external functions that are deterministic in (symbol, call index, input), the independent bytecode encoder. Comparison stops at the first stop/error of a session."),
}

pending = {
}

not_applicable = {
 "C14": "pure function of one instruction sequence (encode/decode round trip): no state, history, environment, fault or schedule for a simulator to control; see DESIGN.md §5",
 "C16": "pure text-to-bytecode translation (assembler fidelity): no state, history, environment, fault or schedule; see DESIGN.md §5",
}

ALL = ["C%02d" % i for i in range(1, 21)]

m = {
 "version": 1,
 "setup_cmd": "./setup.sh",
 "hooks": {
   "guard": "verif",
   "enable": "no source hook exists in /repo: all seams are existing interfaces; db/fs is compiled against a simulated os/ioutil through `go build -overlay` with an AST-rewritten copy made from the current /repo/db/fs at check time (tools fsrewrite), /repo is never modified",
   "baseline_off_cmd": "cd /repo && GOFLAGS=-mod=mod GOPROXY=off GOSUMDB=off GOTOOLCHAIN=local go test -vet=off -count=1 ./...",
   "source_commits": [],
   "add_only": True,
 },
 "engines": [
   {"name": "visim", "path": "sim", "serves_properties": sorted(checks.keys()),
    "kind_free_text": "deterministic simulator: choice tape (one seed = one run), recording seams, fault injection, reference models / differential twins, tape shrinker, replay files"},
 ],
 "checks": [],
 "not_applicable": [],
 "notes": "Exit codes of every command: 0 held / 1 VIOLATION line printed / 2 infrastructure trouble (never a violation). Known findings: known_findings.json. Replays: replays/<id>/*.json, replayed with ./replay.sh <file>.",
}
for pid in ALL:
    if pid in checks:
        c = checks[pid]
        m["checks"].append({
          "property_id": pid,
          "quick_cmd": "./check.sh %s quick" % pid,
          "thorough_cmd": "./check.sh %s thorough" % pid,
          "evidence_file": "evidence/%s.json" % pid,
          "replay_cmd_template": "./replay.sh {path}",
          "engine": "visim",
          "level_claimed": {"category": c["level"], "text": c["text"], "design_ref": c["design"]},
          "level_note": c["note"],
          "technique": c["technique"],
        })
    elif pid in not_applicable:
        m["not_applicable"].append({"property_id": pid, "reason": not_applicable[pid]})
    else:
        m["not_applicable"].append({"property_id": pid, "reason": "not claimed yet: the simulation for this property is planned (DESIGN.md §4) but not built/validated at this commit"})
json.dump(m, open(os.path.join(V, "MANIFEST.json"), "w"), indent=1)
print("wrote MANIFEST.json with", len(m["checks"]), "checks")
