// Package examples loads the repository's example applications into the IR: the .vis
// sources are assembled with the real asm.Parse at check time, decoded with the
// independent decoder, templates are read from the example directory, and external
// symbols are replaced by scripted functions.
package examples

import (
	"bytes"
	"os"
	"path/filepath"
	"sort"
	"strings"
	"sync"

	"git.defalsify.org/vise.git/asm"

	"visim/app"
)

var (
	once sync.Once
	apps []*Loaded
)

type Loaded struct {
	Name      string
	App       *app.App
	FlagCount uint32
}

var mu sync.Mutex // asm.Parse uses package-level state

func loadDir(dir string) *Loaded {
	ents, err := os.ReadDir(dir)
	if err != nil {
		return nil
	}
	a := &app.App{Root: "root", Labels: map[string]map[string]string{}}
	ext := map[string]uint32{}
	var maxFlag uint32
	haveCatch := false
	for _, e := range ents {
		n := e.Name()
		if !strings.HasSuffix(n, ".vis") {
			continue
		}
		src, err := os.ReadFile(filepath.Join(dir, n))
		if err != nil {
			return nil
		}
		var buf bytes.Buffer
		ok := func() (ok bool) {
			defer func() {
				if r := recover(); r != nil {
					ok = false
				}
			}()
			_, err := asm.Parse(string(src), &buf)
			return err == nil
		}()
		if !ok {
			return nil
		}
		code, _, derr := app.Decode(buf.Bytes())
		if derr != nil {
			return nil
		}
		name := strings.TrimSuffix(n, ".vis")
		nd := &app.Node{Name: name, Code: code, Tpl: map[string]string{}}
		if tpl, err := os.ReadFile(filepath.Join(dir, name)); err == nil {
			nd.Tpl[""] = string(tpl)
		} else {
			nd.Tpl[""] = ""
		}
		for _, lg := range []string{"nor", "swa", "fra"} {
			if tpl, err := os.ReadFile(filepath.Join(dir, name+"_"+lg)); err == nil {
				nd.Tpl[lg] = string(tpl)
			}
		}
		for _, in := range code {
			switch in.Op {
			case app.LOAD:
				if _, ok := ext[in.A]; !ok {
					ext[in.A] = in.N
				}
			case app.CATCH, app.CROAK:
				if in.N > maxFlag {
					maxFlag = in.N
				}
			}
		}
		if name == "_catch" {
			haveCatch = true
		}
		a.Nodes = append(a.Nodes, nd)
	}
	if len(a.Nodes) == 0 {
		return nil
	}
	hasRoot := false
	for _, n := range a.Nodes {
		if n.Name == "root" {
			hasRoot = true
		}
	}
	if !hasRoot {
		return nil
	}
	if !haveCatch {
		a.Nodes = append(a.Nodes, &app.Node{Name: "_catch", Kind: app.KCatch, Code: []app.Inst{{Op: app.HALT}, {Op: app.MOVE, A: "^"}}, Tpl: map[string]string{"": "something went wrong"}})
	}
	var names []string
	for k := range ext {
		names = append(names, k)
	}
	sort.Strings(names)
	for _, k := range names {
		e := &app.ExtSym{Name: k, Size: ext[k]}
		if e.Size == 0 {
			e.Script = []app.ExtBehav{{Sink: true, Rows: []int{6, 9, 12, 7, 10, 8}}, {Sink: true, Rows: []int{5}}}
		} else {
			l := 6
			if int(e.Size) < l {
				l = int(e.Size)
			}
			e.Script = []app.ExtBehav{{Len: l}, {Len: 1}}
		}
		a.Ext = append(a.Ext, e)
	}
	a.Index()
	fc := uint32(0)
	if maxFlag >= 8 {
		fc = maxFlag - 7
	}
	return &Loaded{Name: filepath.Base(dir), App: a, FlagCount: fc}
}

// All returns the example applications that assemble and pass the well-formedness check.
func All() []*Loaded {
	once.Do(func() {
		root := os.Getenv("VISIM_REPO")
		if root == "" {
			root = "/repo"
		}
		ents, _ := os.ReadDir(filepath.Join(root, "examples"))
		for _, e := range ents {
			if !e.IsDir() {
				continue
			}
			l := loadDir(filepath.Join(root, "examples", e.Name()))
			if l == nil {
				continue
			}
			if err := l.App.Validate(); err != nil {
				continue
			}
			apps = append(apps, l)
		}
	})
	return apps
}
