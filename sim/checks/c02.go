package checks

import (
	"fmt"
	"strings"

	"visim/app"
	"visim/core"
	"visim/world"
)

func init() {
	core.Register(&core.Check{
		ID:    "C02",
		Level: "exploration",
		Rule: "one run = one node with a sink (zero-size symbol or MSINK menu) with MNEXT/MPREV, generated rows (lengths around the per-page capacity, empty rows, trailing empty rows, single row, 0 rows, a row longer than a page), output size, labels, separator, non-sink values and ordinary menu; a client walks 'next' from index 0 until it is no longer offered, sends 'next' once more, walks back with 'previous' and sends 'previous' once more - every page request is a separate engine request with a restart in between (persisted) or on one long-lived engine; " +
			"non-trivial = the walk covered at least 2 pages; distinct = distinct (rows per page) partitions",
		Runs:       map[string]int{"quick": 110000, "thorough": 6000000},
		MaxSeconds: map[string]int{"quick": 40, "thorough": 900},
		Run:        runC02,
		Assumptions: []string{
			"trailing empty rows have no glyphs; whether they are shown is not compared (row sequences are compared with trailing empty rows removed), interior empty rows must be preserved",
			"a first page that cannot be rendered at all (a row longer than a page, size too small) is a refused render, not a pagination matter",
			"RELOAD between pages is not generated (documented as unpredictable)",
		},
		Real:       realAll,
		Stub:       stubAll,
		HangIsViolation: true, // the property promises that requests are served
		FaultKinds: []string{"restart", "client_browse_oob"},
	})
}

type c02App struct {
	a        *app.App
	rows     []string
	content  string
	nextSel  string
	prevSel  string
	msink    bool
	ordinary []string // ordinary menu selectors (non-sink node) or all entries (msink)
	valSym   string
	backSel  string
	nextLabel, prevLabel string
	prefixMode bool // no wildcard in the node and a catch node that only moves back: an unmatched input re-renders the page with an error line on top
}

func buildC02(t interface {
	Range(int, int) int
	Chance(int, int) bool
	Int(int) int
	Weighted(...int) int
	Begin(string)
	End()
}) *c02App {
	t.Begin("c02app")
	defer t.End()
	x := &c02App{nextSel: []string{"98", "11", "n"}[t.Int(3)], prevSel: []string{"99", "22", "p"}[t.Int(3)]}
	x.msink = t.Chance(1, 4)
	a := &app.App{Root: "root", Labels: map[string]map[string]string{}}
	// rows
	nr := t.Weighted(1, 2, 3, 6, 4)
	switch nr {
	case 3:
		nr = t.Range(3, 8)
	case 4:
		nr = t.Range(8, 30)
	}
	rowLen := func(i int) int {
		switch t.Weighted(10, 1, 2) {
		case 1:
			return 0
		case 2:
			return t.Range(15, 40)
		}
		return t.Range(1, 14)
	}
	var lens []int
	for i := 0; i < nr; i++ {
		lens = append(lens, rowLen(i))
	}
	if t.Chance(1, 6) {
		lens = append(lens, 0)
		if t.Chance(1, 3) {
			lens = append(lens, 0)
		}
	}
	var code []app.Inst
	tpl := "@root|" + []string{"", "list", "pick one\nplease"}[t.Int(3)]
	if x.msink {
		// the menu is the sink: rows are the ordinary menu entries
		n := len(lens)
		if n == 0 {
			n = 1
		}
		for i := 0; i < n; i++ {
			label := fmt.Sprintf("e%d", i)
			l := 3
			if i < len(lens) {
				l = lens[i]
			}
			if l < 1 {
				l = 1
			}
			a.Labels[label] = map[string]string{"": strings.Repeat("x", l)}
			code = append(code, app.Inst{Op: app.MOUT, A: label, B: fmt.Sprintf("%d", i)})
		}
	} else {
		a.Ext = append(a.Ext, &app.ExtSym{Name: "sk", Size: 0, Script: []app.ExtBehav{{Sink: true, Rows: lens, Uni: t.Chance(1, 4)}}})
		code = append(code, app.Inst{Op: app.LOAD, A: "sk", N: 0})
		if t.Chance(1, 2) {
			x.valSym = "va"
			a.Ext = append(a.Ext, &app.ExtSym{Name: "va", Size: 12, Script: []app.ExtBehav{{Len: t.Range(1, 12)}}})
			code = append(code, app.Inst{Op: app.LOAD, A: "va", N: 12}, app.Inst{Op: app.MAP, A: "va"})
			tpl += " va=[{{.va}}]"
		}
		code = append(code, app.Inst{Op: app.MAP, A: "sk"})
		tpl += " S<<{{.sk}}>>"
		no := t.Weighted(2, 2, 1)
		for i := 0; i < no; i++ {
			sel := fmt.Sprintf("%d", i)
			code = append(code, app.Inst{Op: app.MOUT, A: fmt.Sprintf("o%d", i), B: sel})
			x.ordinary = append(x.ordinary, sel)
		}
	}
	x.nextLabel = []string{"nx", "forward", "nx2"}[t.Int(3)]
	x.prevLabel = []string{"pv", "backward", "pv2"}[t.Int(3)]
	// labels may resolve to text with multi-byte characters
	if x.nextLabel == "nx2" {
		a.Labels["nx2"] = map[string]string{"": "nèste →"}
	}
	if x.prevLabel == "pv2" {
		a.Labels["pv2"] = map[string]string{"": "førrige ←"}
	}
	code = append(code, app.Inst{Op: app.MNEXT, A: x.nextLabel, B: x.nextSel})
	code = append(code, app.Inst{Op: app.MPREV, A: x.prevLabel, B: x.prevSel})
	if t.Chance(1, 4) {
		// the order of the two lines is the author's choice
		code[len(code)-2], code[len(code)-1] = code[len(code)-1], code[len(code)-2]
	}
	if x.msink {
		code = append(code, app.Inst{Op: app.MSINK})
	}
	code = append(code, app.Inst{Op: app.HALT})
	code = append(code, app.Inst{Op: app.INCMP, A: ">", B: x.nextSel}, app.Inst{Op: app.INCMP, A: "<", B: x.prevSel})
	x.prefixMode = t.Chance(1, 6)
	catchCode := []app.Inst{{Op: app.HALT}, {Op: app.MOVE, A: "_"}}
	if x.prefixMode {
		catchCode = []app.Inst{{Op: app.MOVE, A: "_"}}
	} else {
		code = append(code, app.Inst{Op: app.INCMP, A: "other", B: "*"})
	}
	a.Nodes = append(a.Nodes, &app.Node{Name: "root", Code: code, Tpl: map[string]string{"": tpl + "$"}})
	a.Nodes = append(a.Nodes, &app.Node{Name: "other", Code: []app.Inst{{Op: app.HALT}, {Op: app.INCMP, A: "_", B: "*"}}, Tpl: map[string]string{"": "@other|$"}})
	a.Nodes = append(a.Nodes, &app.Node{Name: "_catch", Kind: app.KCatch, Code: catchCode, Tpl: map[string]string{"": "@_catch|oops$"}})
	a.Index()
	x.a = a
	if !x.msink {
		x.content = app.Content("sk", 0, app.Digest(nil), &a.Ext[0].Script[0])
		x.rows = strings.Split(x.content, "\n")
	}
	return x
}

// labelText is what a label resolves to (its default entry, else the label symbol itself).
func (x *c02App) labelText(l string) string {
	if m := x.a.Labels[l]; m != nil {
		if v, ok := m[""]; ok {
			return v
		}
	}
	return l
}

type c02Page struct {
	sink    string
	hasNext bool
	hasPrev bool
	raw     string
}

func runC02(c *core.Ctx) *core.Outcome {
	t := c.T
	o := core.NewOutcome()
	x := buildC02(t)
	cfg := world.Cfg{Backend: world.BackMem, FinishAlways: true}
	cfg.MenuSep = []string{"", ". ", ")", " · "}[t.Weighted(4, 1, 1, 1)]
	sep := cfg.MenuSep
	if sep == "" {
		sep = ":"
	}
	persisted := t.Chance(2, 3)
	// unsized twin first: the full page
	wu := world.New(x.a, cfg)
	wu.UseMem()
	U := wu.NewSession("s", false)
	us := U.Request(nil, false)
	if us.Panic != "" || us.ExecErr != "" || us.FlushErr != "" {
		o.Probes["unsized_render_failed"]++
		return finish(o, wu)
	}
	full := app.ParsePage(us.Out)
	var allRows string
	var ordinary []string
	if x.msink {
		allRows = strings.Join(full.Menu, "\n")
	} else {
		allRows = x.content
		ordinary = full.Menu
	}
	trimmed := strings.TrimRight(allRows, "\n")
	// output size: room for the static part and a few rows
	staticLen := len(us.Out) - len(allRows)
	t.Begin("size")
	var size int
	switch t.Weighted(5, 2, 3) {
	case 0:
		size = staticLen + t.Range(8, 70)
	case 1:
		size = len(us.Out) + t.Range(0, 8) - 4
	case 2:
		size = staticLen + t.Range(0, 24)
	}
	if size < 1 {
		size = 1
	}
	t.End()
	cfg.OutputSize = uint32(size)
	cfg.First = t.Chance(1, 5) // a pre-VM function must not disturb browsing
	w := world.New(x.a, cfg)
	w.UseMem()
	defer w.Close()
	S := w.NewSession("s", persisted)
	var walkAttrs map[string]string // set while the walk starts from a page that carries an error line
	fail := func(class string, step int, format string, args ...interface{}) *core.Outcome {
		o.Fail(class, step, walkAttrs, format, args...)
		o.Scenario = scenario(w, map[string]interface{}{"output_size": size, "rows": strings.Split(allRows, "\n"), "msink": x.msink, "unsized_page": us.Out})
		return finish(o, w, wu)
	}
	allowPrefix := false
	parse := func(st *world.Step) (c02Page, bool) {
		pg := app.ParsePage(st.Out)
		if !pg.OK || pg.Node != "root" {
			return c02Page{}, false
		}
		p := c02Page{raw: st.Out}
		var lines []string
		for _, l := range pg.Menu {
			switch {
			case l == x.nextSel+sep+x.labelText(x.nextLabel):
				p.hasNext = true
			case l == x.prevSel+sep+x.labelText(x.prevLabel):
				p.hasPrev = true
			default:
				lines = append(lines, l)
			}
		}
		if x.msink {
			p.sink = strings.Join(lines, "\n")
		} else {
			if pg.Sink == nil {
				return p, false
			}
			p.sink = *pg.Sink
			// ordinary menu and non-sink values on every page
			if strings.Join(lines, "\n") != strings.Join(ordinary, "\n") {
				return p, false
			}
			if x.valSym != "" && pg.Vals[x.valSym] != full.Vals[x.valSym] {
				return p, false
			}
		}
		if pg.Prefix != "" && !allowPrefix {
			return p, false
		}
		return p, true
	}
	step := 0
	st := S.Request(nil, persisted)
	o.Counts["requests"]++
	if st.Panic != "" {
		o.Probes["foreign_panic"]++
		return finish(o, w, wu)
	}
	if st.ExecErr != "" || st.FlushErr != "" {
		o.Probes["first_page_refused"]++
		// a client browsing on anyway: if page 1 exists and offers 'previous', page 0 must render
		if st.ExecErr == "" {
			s1 := S.Request([]byte(x.nextSel), persisted)
			o.Counts["requests"]++
			if s1.Panic == "" && s1.ExecErr == "" && s1.FlushErr == "" {
				if p1, ok := parse(s1); ok && p1.hasPrev {
					s0 := S.Request([]byte(x.prevSel), persisted)
					o.Counts["requests"]++
					if s0.Panic == "" && (s0.ExecErr != "" || s0.FlushErr != "") {
						return fail("offered-previous-does-not-render", 2, "page 1 renders and offers 'previous' (%s) but page 0 does not render: exec %q flush %q", short(s1.Out), s0.ExecErr, s0.FlushErr)
					}
				}
			}
		}
		return finish(o, w, wu)
	}
	p0, ok := parse(st)
	if !ok {
		return fail("page-static-part-wrong", 0, "page 0 does not carry the static text, non-sink values and ordinary menu of the unsized page: %s (unsized %s)", short(st.Out), short(us.Out))
	}
	pages := []c02Page{p0}
	if x.prefixMode {
		// the client mistypes on the first page: the catch node sends it straight back and the page
		// comes again with an error line on top. Walking on from THAT page must still show every row once
		se := S.Request([]byte("zz"), persisted)
		o.Counts["requests"]++
		if se.Panic != "" || se.ExecErr != "" || se.FlushErr != "" {
			o.Probes["error_page_refused"]++
			return finish(o, w, wu)
		}
		allowPrefix = true
		pe, ok := parse(se)
		allowPrefix = false
		if !ok || app.ParsePage(se.Out).Prefix == "" {
			o.Probes["error_page_not_recognised"]++
			return finish(o, w, wu)
		}
		pages = []c02Page{pe}
		walkAttrs = map[string]string{"walk": "from-page-with-error-line"}
		o.Probes["walk_from_page_with_error_line"]++
	}
	// walk forward
	for len(pages) < 80 {
		cur := pages[len(pages)-1]
		if len(pages) == 1 && cur.hasPrev {
			return fail("previous-offered-on-first-page", step, "page 0 offers 'previous': %s", short(cur.raw))
		}
		if !cur.hasNext {
			break
		}
		step++
		st := S.Request([]byte(x.nextSel), persisted)
		o.Counts["requests"]++
		if persisted {
			o.Faults["restart"]++
		}
		if st.Panic != "" {
			o.Probes["foreign_panic"]++
			return finish(o, w, wu)
		}
		if st.ExecErr != "" || st.FlushErr != "" {
			// does the first row not yet shown exceed a page together with the browse entries it needs?
			var shown []string
			for _, p := range pages {
				shown = append(shown, p.sink)
			}
			done := strings.Join(shown, "\n")
			cause := "other"
			if strings.HasPrefix(allRows, done) {
				rest := strings.TrimPrefix(strings.TrimPrefix(allRows, done), "\n")
				restRows := strings.Split(rest, "\n")
				need := staticLen + len(restRows[0]) + 1 + len(x.prevSel) + len(sep) + len(x.labelText(x.prevLabel))
				if len(restRows) > 1 {
					need += 1 + len(x.nextSel) + len(sep) + len(x.labelText(x.nextLabel))
				}
				if need > size {
					cause = "row-exceeds-page-with-browse-entries"
				}
			}
			o.Fail("offered-next-does-not-render", step, mergeAttrs(map[string]string{"cause": cause}, walkAttrs), "page %d offers 'next' but the following page does not render: exec %q flush %q (cause: %s)", len(pages)-1, st.ExecErr, st.FlushErr, cause)
			o.Scenario = scenario(w, map[string]interface{}{"output_size": size, "rows": strings.Split(allRows, "\n"), "msink": x.msink, "unsized_page": us.Out})
			return finish(o, w, wu)
		}
		p, ok := parse(st)
		if !ok {
			return fail("page-static-part-wrong", step, "page %d (reached through the offered 'next') is not a page of the node with its static text, values and ordinary menu: %s", len(pages), short(st.Out))
		}
		if !p.hasPrev {
			return fail("previous-not-offered", step, "page %d does not offer 'previous': %s", len(pages), short(p.raw))
		}
		pages = append(pages, p)
	}
	// completeness and order
	var sinks []string
	for _, p := range pages {
		sinks = append(sinks, p.sink)
	}
	got := strings.TrimRight(strings.Join(sinks, "\n"), "\n")
	if got != trimmed {
		var per []string
		for _, s := range sinks {
			per = append(per, fmt.Sprintf("%q", s))
		}
		return fail("rows-not-partitioned", step, "walking %d pages with 'next' shows %q, the content is %q (pages: %s)", len(pages), got, trimmed, strings.Join(per, " | "))
	}
	var shape []string
	for _, s := range sinks {
		shape = append(shape, fmt.Sprint(strings.Count(s, "\n")+1))
	}
	o.States = append(o.States, h64(strings.Join(shape, ","), x.msink))
	// one more 'next' past the end
	step++
	pst := S.Request([]byte(x.nextSel), persisted)
	o.Counts["requests"]++
	o.Faults["client_browse_oob"]++
	if pst.Panic != "" {
		// asking for a page past the end must be reported as an error
		return fail("page-past-the-end-panics", step, "'next' on the last page (%d) made the library panic in %s: %s", len(pages)-1, pst.PanicAt, pst.Panic)
	}
	if pst.ExecErr == "" && pst.FlushErr == "" {
		if pg := app.ParsePage(pst.Out); pg.OK && pg.Node == "root" {
			return fail("page-past-the-end-answered", step, "'next' on the last page (%d) was answered with a page of the same node: %s", len(pages)-1, short(pst.Out))
		}
	}
	o.Probes["past_the_end_refused"]++
	// walk back on a fresh session positioned on the last page (the request past the end may have left the node)
	if len(pages) > 1 && walkAttrs == nil {
		w2 := world.New(x.a, cfg)
		w2.UseMem()
		defer w2.Close()
		S2 := w2.NewSession("s", persisted)
		S2.Request(nil, persisted)
		for i := 1; i < len(pages); i++ {
			S2.Request([]byte(x.nextSel), persisted)
		}
		for i := len(pages) - 2; i >= 0; i-- {
			step++
			st := S2.Request([]byte(x.prevSel), persisted)
			o.Counts["requests"]++
			if st.Panic != "" {
				o.Probes["foreign_panic"]++
				return finish(o, w, wu, w2)
			}
			if st.ExecErr != "" || st.FlushErr != "" {
				return fail("offered-previous-does-not-render", step, "page %d offers 'previous' but the page before does not render: exec %q flush %q", i+1, st.ExecErr, st.FlushErr)
			}
			if st.Out != pages[i].raw {
				return fail("previous-page-differs", step, "walking back to page %d shows %s, walking forward it was %s", i, short(st.Out), short(pages[i].raw))
			}
		}
		step++
		st := S2.Request([]byte(x.prevSel), persisted)
		o.Counts["requests"]++
		o.Faults["client_browse_oob"]++
		if st.Panic == "" && st.ExecErr == "" && st.FlushErr == "" {
			if pg := app.ParsePage(st.Out); pg.OK && pg.Node == "root" {
				return fail("page-before-the-first-answered", step, "'previous' on the first page was answered with a page of the same node: %s", short(st.Out))
			}
		}
		o.Counts["sim_ticks"] += w2.Rec.Ticks()
	}
	o.Nontrivial = len(pages) >= 2
	o.Probes[fmt.Sprintf("walk_pages_%s", bucket(len(pages)))]++
	if c.WantScenario {
		o.Scenario = scenario(w, map[string]interface{}{"output_size": size, "rows": strings.Split(allRows, "\n"), "msink": x.msink})
	}
	return finish(o, w, wu)
}

func bucket(n int) string {
	switch {
	case n == 1:
		return "1"
	case n <= 3:
		return "2-3"
	case n <= 6:
		return "4-6"
	}
	return "7+"
}

func mergeAttrs(a, b map[string]string) map[string]string {
	for k, v := range b {
		a[k] = v
	}
	return a
}
