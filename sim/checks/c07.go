package checks

import (
	"bytes"
	"fmt"
	"os"
	"strings"
	"unicode/utf8"

	"visim/app"
	"visim/core"
	"visim/examples"
	"visim/tape"
	"visim/world"
)

func init() {
	core.Register(&core.Check{
		ID:    "C07",
		Level: "exploration",
		Rule: "one run = one generated application + configuration + input history served by three twins (one long-lived engine; fresh engine+persister+store handle per request; fresh at a drawn subset of requests); " +
			"non-trivial = the history reached at least 3 successful requests and one restart with pending session state; distinct = distinct sequences of abstract session states (path, index, flags, cache shape, pending code)",
		Runs:       map[string]int{"quick": 40000, "thorough": 3500000},
		MaxSeconds: map[string]int{"quick": 40, "thorough": 900},
		Run:        runC07,
		Assumptions: []string{
			"external functions are deterministic functions of (symbol, per-session call index, input)",
			"comparison stops at the first request that stops or fails (Exec after stop is documented as undefined)",
			"engine.WithFirst is configured in a fifth of the runs with a function that only returns a constant: it runs once per engine instance by design, so its invocation count differs between the twins (and its result is empty when a cache capacity is configured, because it needs capacity while it runs); nothing the client sees may differ",
		},
		Real:       append(append([]string{}, realAll...), "db/fs (compiled against the simulated os)", "db/postgres", "engine.Loop (fourth twin)"),
		Stub:       append(append([]string{}, stubAll...), "OS filesystem (simfs)", "Postgres server (pgfake)", "client connection of engine.Loop (chunked reader, recording writer)"),
		FaultKinds: []string{"restart", "ext_error", "client_garbage", "template_lookup_error", "client_write_error", "connection_closed", "connection_error"},
	})
}

type twinStep struct {
	cont     bool
	execErr  bool
	out      string
	flushErr bool
	panicked bool
}

func stepSig(s *world.Step) twinStep {
	return twinStep{s.Cont, s.ExecErr != "", s.Out, s.FlushErr != "", s.Panic != ""}
}

func runC07(c *core.Ctx) *core.Outcome {
	t := c.T
	o := core.NewOutcome()
	if t.Chance(1, 8) {
		return c07Kept(c, o)
	}
	cfg := genCfg(t)
	cfg.Backend = t.Weighted(3, 2, 1, 2)
	cfg.SetSession = t.Chance(1, 2)
	cfg.ResetOnEmpty = t.Chance(1, 6)
	cfg.First = t.Chance(1, 5) // a benign pre-VM function: how often it runs differs between the twins, what the client sees must not
	if cfg.First && cfg.CacheSize > 0 {
		cfg.FirstContent = "-" // its result needs cache capacity while it runs; an empty result keeps that out of the comparison
	}
	cfg.FinishAlways = t.Chance(1, 2) // gateway policy: save the session also after a request whose page could not be delivered
	var a *app.App
	exs := examples.All()
	deep := 0
	var scripted [][]byte
	force := os.Getenv("VISIM_C07_KIND") // debugging aid: force one of the scripted kinds (deep, langpaged, tworoles)
	if t.Chance(1, 80) || force == "deep" {
		// a session that keeps descending: resumed at every depth up to the limit the library enforces
		a = deepApp(t)
		deep = []int{127, 126, 100, 60}[t.Weighted(3, 2, 1, 1)]
		cfg.OutputSize = 0
		o.Probes["deep_run"]++
	} else if t.Chance(1, 60) || force == "langpaged" {
		// a paginated node seen before and after a language switch that makes its browse labels much longer
		a = langPagedApp(t)
		cfg.OutputSize = uint32(t.Range(48, 90))
		scripted = [][]byte{[]byte("1"), []byte("11"), []byte("0"), []byte("2"), []byte("0"), []byte("1"), []byte("11"), []byte("11"), []byte("22")}
		o.Probes["language_switch_over_paginated_node_run"]++
	} else if t.Chance(1, 60) || force == "tworoles" {
		// one symbol in two roles, visited in both orders
		a = twoRolesApp(t)
		scripted = [][]byte{[]byte("1"), []byte("0"), []byte("2"), []byte("0"), []byte("1"), []byte("11"), []byte("0"), []byte("2")}
		o.Probes["two_roles_run"]++
	} else if len(exs) > 0 && t.Chance(1, 6) {
		// one of the repository's example applications (assembled with the real assembler)
		ex := exs[t.Int(len(exs))]
		a = ex.App
		cfg.FlagCount = ex.FlagCount + uint32(t.Int(2))
		o.Probes["example_app"]++
	} else {
		prof := fullProfile(t, cfg.FlagCount)
		prof.BadUTF8 = t.Chance(1, 10) // results are byte strings to the VM: some are not valid UTF-8
		prof.SizeFlip = t.Chance(1, 3) // the same symbol as a paginated sink in one node and as a sized value in another
		a = app.Generate(t, prof)
		if err := a.Validate(); err != nil {
			panic("generator produced ill-formed app: " + err.Error())
		}
	}
	maxReq := 14
	if c.Tier == "thorough" {
		maxReq = 24
	}
	nreq := t.Range(2, maxReq)
	nreq += deep
	if len(scripted) > 0 && nreq < len(scripted)+1 {
		nreq = len(scripted) + 1
	}
	dbStack := t.Chance(1, 4)

	wl := world.New(a, cfg)
	L := wl.NewSession("sess", false)
	wp := world.New(a, cfg)
	wp.UseBackend()
	defer wp.Close()
	P := wp.NewSession("sess", true)
	cfgM := cfg
	cfgM.FinishLate = t.Chance(1, 3) // the mixed twin may finish an engine only when it is retired
	wm := world.New(a, cfgM)
	wm.UseBackend()
	defer wm.Close()
	M := wm.NewSession("sess", true)

	if dbStack {
		// all three twins read the application through the library's DbResource
		for _, w := range []*world.World{wl, wp, wm} {
			if err := w.UseDbResource(); err != nil {
				panic("cannot build DbResource: " + err.Error())
			}
		}
		o.Probes["db_resource_stack"]++
	}
	var inputs [][]byte
	var tplFaults []bool
	wrFaulted := false
	badSaved := false
	var badAfter []bool // per request: had the long-lived session cached a value that is not valid UTF-8 by the end of it
	okReq := 0
	restartsWithState := 0
	for i := 0; i < nreq; i++ {
		t.Begin("request")
		var in []byte
		if i > 0 {
			cur := ""
			if p, _ := L.Position(); len(p) > 0 {
				cur = p[len(p)-1]
			}
			in = genInput(t, a, cur, 2)
			if i-1 < len(scripted) && !t.Chance(1, 6) {
				in = scripted[i-1]
			}
			if i <= deep {
				in = []byte("1")
			} else if deep > 0 && string(in) == "1" {
				if p, _ := L.Position(); len(p) >= 128 {
					in = []byte("0") // state.MaxLevel entries: the library refuses to go deeper
				}
			}
			if cfg.ResetOnEmpty && t.Chance(1, 4) {
				in = []byte{}
				o.Probes["empty_input_with_reset_on_empty"]++
			}
		}
		mFresh := t.Chance(1, 2)
		tf := t.Chance(1, 14)
		if tf {
			// the template store is down for this request - for all twins alike
			L.FailTemplateThisRequest, P.FailTemplateThisRequest, M.FailTemplateThisRequest = true, true, true
		}
		tplFaults = append(tplFaults, tf)
		if !tf && t.Chance(1, 20) {
			// the client is gone when the page is written - for the three engine-driving twins alike (the
			// Loop twin has its own connection faults)
			L.FailWriteThisRequest, P.FailWriteThisRequest, M.FailWriteThisRequest = true, true, true
			wrFaulted = true
		}
		t.End()
		inputs = append(inputs, in)
		sl := L.Request(in, false)
		sp := P.Request(in, true)
		sm := M.Request(in, mFresh)
		o.Counts["requests"] += 3
		o.Faults["restart"]++
		if sm.Fresh {
			o.Faults["restart"]++
		}
		o.States = append(o.States, stateHash(L))
		o.Probes["backend_"+world.BackendNames[cfg.Backend]]++
		if sl.Panic != "" || sp.Panic != "" || sm.Panic != "" {
			// owned by C08; the comparison cannot continue
			o.Probes["foreign_panic"]++
			break
		}
		a1, a2, a3 := stepSig(sl), stepSig(sp), stepSig(sm)
		var attrs map[string]string
		if badSaved {
			// what the session held when it was saved after an earlier request included a value that is not valid UTF-8
			attrs = map[string]string{"cause": "non-utf8-value-in-saved-session"}
		}
		if nonUTF8Cached(L) {
			badSaved = true // sticky: the persisted twins may have restarted silently at any later load
		}
		if badSaved {
			o.Probes["request_leaving_non_utf8_value_in_cache"]++
		}
		badAfter = append(badAfter, badSaved)
		if a1 != a2 {
			o.Fail("twin-diverge:long-lived/persisted", i, attrs,
				"request %d input %s: long-lived (cont=%v execErr=%q flushErr=%q out=%s) != persisted (cont=%v execErr=%q flushErr=%q out=%s)",
				i, short(string(in)), sl.Cont, sl.ExecErr, sl.FlushErr, short(sl.Out), sp.Cont, sp.ExecErr, sp.FlushErr, short(sp.Out))
			break
		}
		if a1 != a3 {
			o.Fail("twin-diverge:long-lived/mixed", i, attrs,
				"request %d input %s: long-lived (cont=%v execErr=%q flushErr=%q out=%s) != mixed (cont=%v execErr=%q flushErr=%q out=%s)",
				i, short(string(in)), sl.Cont, sl.ExecErr, sl.FlushErr, short(sl.Out), sm.Cont, sm.ExecErr, sm.FlushErr, short(sm.Out))
			break
		}
		if sl.ExecErr != "" && sl.Cont {
			// the engine refused the input and says the session continues
			o.Faults["client_garbage"]++
			continue
		}
		if sl.ExecErr == "" && sl.FlushErr != "" && sl.Cont && cfg.FinishAlways {
			// the page was not delivered but the request was executed and - with this gateway policy -
			// saved: the session goes on and the twins have to stay in step
			o.Probes["continued_after_refused_render"]++
			continue
		}
		if sl.ExecErr != "" || sl.FlushErr != "" || !sl.Cont {
			if sl.ExecErr != "" {
				o.Probes["ended_by_exec_error"]++
				o.Probes["execerr:"+errKey(sl.ExecErr)]++
			} else if sl.FlushErr != "" {
				o.Probes["ended_by_flush_error"]++
				o.Probes["flusherr:"+errKey(sl.FlushErr)]++
			} else {
				o.Probes["ended_by_stop"]++
			}
			break
		}
		okReq++
		if i > 0 && len(sp.Moves) >= 0 {
			restartsWithState++
		}
		if sl.Calls > 0 {
			o.Probes["request_with_ext_call"]++
		}
		if len(app.ParsePage(sl.Out).Prefix) > 0 {
			o.Probes["page_with_error_prefix"]++
		}
	}
	// fourth twin: the same inputs through the library's own engine.Loop, an engine per connection,
	// lines read in chunks from a simulated connection that is closed or fails at drawn points
	if o.V == nil && len(L.Steps) >= 2 && !wrFaulted && t.Chance(1, 3) {
		wx := world.New(a, cfg)
		wx.UseBackend()
		defer wx.Close()
		if dbStack {
			if err := wx.UseDbResource(); err != nil {
				panic("cannot build DbResource: " + err.Error())
			}
		}
		X := wx.NewSession("sess", true)
		if v := loopTwin(t, o, L, X, inputs, tplFaults, badAfter); v != nil {
			o.V = v
			if o.Scenario == nil {
				o.Scenario = map[string]interface{}{"long_lived": scenario(wl, nil), "loop": scenario(wx, nil)["sessions"]}
			}
			return finish(o, wl, wp, wm, wx)
		}
		o.Probes["loop_twin_run"]++
	}
	o.Nontrivial = okReq >= 3 && restartsWithState >= 1
	if c.WantScenario || o.V != nil {
		o.Scenario = map[string]interface{}{"long_lived": scenario(wl, nil), "persisted": scenario(wp, nil)["sessions"], "mixed": scenario(wm, nil)["sessions"]}
	}
	return finish(o, wl, wp, wm)
}

// nonUTF8Cached reports whether the session's cache holds a value (or last value) that is not valid UTF-8.
func nonUTF8Cached(s *world.Sess) bool {
	if s.Ca == nil {
		return false
	}
	if !utf8.ValidString(s.Ca.LastValue) {
		return true
	}
	for _, m := range s.Ca.Cache {
		for _, v := range m {
			if !utf8.ValidString(v) {
				return true
			}
		}
	}
	return false
}

// loopTwin serves the inputs the long-lived twin L has handled through engine.Loop, cut into
// connections at drawn points, and compares what reaches the writer with L's pages.
func loopTwin(t *tape.Tape, o *core.Outcome, L, X *world.Sess, inputs [][]byte, tplFaults []bool, badAfter []bool) *core.Violation {
	// the listed finding seen through this twin: a connection that ends saves the session, the next one loads it
	known := func(v *core.Violation) *core.Violation {
		if v.Step > 0 && v.Step-1 < len(badAfter) && badAfter[v.Step-1] {
			v.Attrs = map[string]string{"cause": "non-utf8-value-in-saved-session"}
		}
		return v
	}
	n := len(L.Steps)
	if n > len(inputs) {
		n = len(inputs)
	}
	// Loop trims white space off every line: only inputs that survive that are the same request
	for i := 1; i < n; i++ {
		if string(bytes.TrimSpace(inputs[i])) != string(inputs[i]) || bytes.IndexByte(inputs[i], '\n') >= 0 {
			n = i
			break
		}
	}
	pos := 0
	t.Begin("loop")
	defer t.End()
	for pos < n {
		segLen := 1 + t.Int(n-pos)
		failAt := -1
		if segLen > 1 && t.Chance(1, 5) {
			failAt = 1 + t.Int(segLen-1) // the connection fails before this line arrives
			segLen = failAt
			o.Faults["connection_error"]++
		} else if pos+segLen < n {
			o.Faults["connection_closed"]++
		}
		res := X.ServeLoop(inputs[pos:pos+segLen], tplFaults[pos:pos+segLen], func() int { return t.Int(6) }, failAt)
		o.Faults["restart"]++
		if res.Panic != "" {
			o.Probes["foreign_panic"]++
			return nil
		}
		if res.Consumed == 0 {
			return known(&core.Violation{Class: "twin-diverge:long-lived/loop", Step: pos, Msg: fmt.Sprintf("connection starting at request %d: engine.Loop served nothing (%s)", pos, res.Err)})
		}
		for j := range res.Steps {
			i := pos + j
			ls, xs := &L.Steps[i], &res.Steps[j]
			o.Counts["requests"]++
			last := j == len(res.Steps)-1
			lFail := ls.ExecErr != "" || ls.FlushErr != ""
			xFail := last && res.Err != "" && !(failAt >= 0 && j == segLen-1 && strings.Contains(res.Err, "cannot read input"))
			switch {
			case lFail != xFail:
				return known(&core.Violation{Class: "twin-diverge:long-lived/loop", Step: i, Msg: fmt.Sprintf("request %d input %s: long-lived engine exec=%q flush=%q, engine.Loop returned %q", i, short(ls.Input), ls.ExecErr, ls.FlushErr, res.Err)})
			case !lFail && ls.Out != xs.Out:
				return known(&core.Violation{Class: "twin-diverge:long-lived/loop", Step: i, Msg: fmt.Sprintf("request %d input %s: long-lived engine delivered %s, engine.Loop wrote %s", i, short(ls.Input), short(ls.Out), short(xs.Out))})
			case !lFail && !ls.Cont != (last && res.Err == "" && !xs.Cont && j < segLen-1 || last && !ls.Cont && !xs.Cont):
				if !ls.Cont && xs.Cont {
					return known(&core.Violation{Class: "twin-diverge:long-lived/loop", Step: i, Msg: fmt.Sprintf("request %d input %s: the long-lived engine reports stop, engine.Loop went on reading", i, short(ls.Input))})
				}
				if ls.Cont && last && j < segLen-1 && res.Err == "" {
					return known(&core.Violation{Class: "twin-diverge:long-lived/loop", Step: i, Msg: fmt.Sprintf("request %d input %s: the long-lived engine reports continue, engine.Loop stopped with %d lines unread", i, short(ls.Input), segLen-1-j)})
				}
			}
			if lFail && !ls.Cont || !ls.Cont {
				return nil // L's comparison ends here as well
			}
		}
		pos += res.Consumed
	}
	return nil
}

// c07Kept: two engine-per-request twins over stores of the same kind. One builds a new persister for
// every request; the other keeps its persister between requests (gateway policy), so that every load
// decodes into objects that still hold what the previous request left there - also when that request
// failed and was not saved. Loading must replace all of it: the twins answer alike, request by request,
// through failures to the end of the history.
func c07Kept(c *core.Ctx, o *core.Outcome) *core.Outcome {
	t := c.T
	cfg := genCfg(t)
	cfg.Backend = t.Weighted(3, 2, 1, 2)
	cfg.SetSession = t.Chance(1, 2)
	cfg.First = t.Chance(1, 5)
	if cfg.First && cfg.CacheSize > 0 {
		cfg.FirstContent = "-"
	}
	cfg.FinishAlways = t.Chance(1, 3)
	prof := fullProfile(t, cfg.FlagCount)
	a := app.Generate(t, prof)
	if err := a.Validate(); err != nil {
		panic("generator produced ill-formed app: " + err.Error())
	}
	o.Probes["kept_persister_twin_run"]++
	wp := world.New(a, cfg)
	wp.UseBackend()
	defer wp.Close()
	P := wp.NewSession("sess", true)
	cfgK := cfg
	cfgK.KeepPersister = true
	cfgK.SessionViaStore = t.Chance(1, 2)
	wk := world.New(a, cfgK)
	wk.UseBackend()
	defer wk.Close()
	K := wk.NewSession("sess", true)
	// ... and the gateway may have two workers, each with a kept persister (and store handle) of its own for
	// the session: what one saved the other has to see
	twoWorkers := t.Chance(1, 2)
	if twoWorkers {
		o.Probes["kept_persister_twin_run_with_two_workers"]++
	}
	nreq := t.Range(4, 18)
	okReq, unsaved := 0, 0
	for i := 0; i < nreq; i++ {
		t.Begin("request")
		var in []byte
		if i > 0 {
			cur := ""
			if p, _ := P.Position(); len(p) > 0 {
				cur = p[len(p)-1]
			}
			in = genInput(t, a, cur, 2)
		}
		if t.Chance(1, 10) {
			P.FailTemplateThisRequest, K.FailTemplateThisRequest = true, true
		} else if t.Chance(1, 16) {
			P.FailWriteThisRequest, K.FailWriteThisRequest = true, true
		}
		if twoWorkers {
			K.Worker = t.Int(2)
		}
		t.End()
		sp := P.Request(in, true)
		sk := K.Request(in, true)
		o.Counts["requests"] += 2
		o.Faults["restart"] += 2
		o.States = append(o.States, stateHash(P))
		if sp.Panic != "" || sk.Panic != "" {
			o.Probes["foreign_panic"]++
			break
		}
		if !sp.Finished {
			unsaved++
			o.Probes["request_not_saved_then_continued"]++
		}
		if stepSig(sp) != stepSig(sk) {
			o.Fail("twin-diverge:fresh-persister/kept-persister", i, nil,
				"request %d input %s: with a new persister per request (cont=%v execErr=%q flushErr=%q out=%s) != with the persister kept between requests (cont=%v execErr=%q flushErr=%q out=%s)",
				i, short(string(in)), sp.Cont, sp.ExecErr, sp.FlushErr, short(sp.Out), sk.Cont, sk.ExecErr, sk.FlushErr, short(sk.Out))
			break
		}
		if a1, a2 := snapKey(P.St, P.Ca), snapKey(K.St, K.Ca); a1 != a2 {
			o.Fail("twin-diverge:fresh-persister/kept-persister", i, map[string]string{"at": "session-state"},
				"request %d input %s: same answers, but the session with a new persister per request is {%s} and the one whose persister is kept is {%s}", i, short(string(in)), a1, a2)
			break
		}
		if sp.ExecErr == "" && sp.FlushErr == "" {
			okReq++
		}
	}
	o.Nontrivial = okReq >= 3 && unsaved >= 1
	if c.WantScenario || o.V != nil {
		o.Scenario = map[string]interface{}{"fresh_persister": scenario(wp, nil), "kept_persister": scenario(wk, nil)["sessions"]}
	}
	return finish(o, wp, wk)
}
