// Package simfs is the simulated filesystem that db/fs is compiled against at check
// time (imports of "os" and "io/ioutil" are redirected here through `go build -overlay`).
// It exports the identifiers of package os / ioutil that a filesystem key-value store can
// reasonably use. Every call is split into micro-steps; a crash (process death) can be
// armed at any micro-step and at any byte offset of a write. Everything a completed
// micro-step did survives a crash; an in-flight write keeps a prefix.
//
// Which simulated disk a call addresses is decided by the path: every disk is mounted at
// /simfs/<id>/. Paths outside /simfs are reported to the owner as escapes.
package simfs

import (
	"errors"
	"fmt"
	"io"
	iofs "io/fs"
	"path"
	"runtime"
	"sort"
	"strconv"
	"strings"
	"sync"
	"sync/atomic"
	"syscall"
	"time"
)

// ---- identifiers of package os ----

const (
	O_RDONLY int = 0x0
	O_WRONLY int = 0x1
	O_RDWR   int = 0x2
	O_APPEND int = 0x400
	O_CREATE int = 0x40
	O_EXCL   int = 0x80
	O_SYNC   int = 0x101000
	O_TRUNC  int = 0x200

	PathSeparator = '/'
	ModePerm      = iofs.ModePerm
	ModeDir       = iofs.ModeDir
)

var (
	ErrNotExist   = iofs.ErrNotExist
	ErrExist      = iofs.ErrExist
	ErrInvalid    = iofs.ErrInvalid
	ErrClosed     = iofs.ErrClosed
	ErrPermission = iofs.ErrPermission
)

type FileMode = iofs.FileMode
type FileInfo = iofs.FileInfo
type DirEntry = iofs.DirEntry
type PathError = iofs.PathError

func IsNotExist(err error) bool { return errors.Is(err, iofs.ErrNotExist) }
func IsExist(err error) bool    { return errors.Is(err, iofs.ErrExist) }

// ---- the disk ----

type inode struct {
	data   []byte
	dir    bool
	synced bool
}

// Crash is the panic value raised when an armed crash point is reached.
type Crash struct {
	Step   int
	Offset int
}

// StepInfo describes one micro-step for enumeration.
type StepInfo struct {
	Kind string `json:"kind"`
	Path string `json:"path"`
	Len  int    `json:"len,omitempty"` // for writes: number of bytes
}

type FS struct {
	mu                  sync.Mutex
	id                  int64
	nodes               map[string]*inode // absolute cleaned path inside the disk ("/" = mount root)
	steps               int
	Log                 []StepInfo // micro-steps performed since ResetLog (when Record is set)
	Record              bool
	armed               bool
	crashStep, crashOff int
	Escapes             []string // paths addressed outside any simulated disk... recorded by owner lookups
	tmpSeq              int
	Syncs               int
	// error injection: the n-th mutating micro-step fails with this error (0 = off)
	FailStep int
	FailErr  error
	// FailNextWrite makes the next File.Write on this disk store only FailShort bytes (at most) and then
	// fail with ENOSPC: a disk that fills up, a quota, a file-size limit. One shot. WriteFails counts them.
	FailNextWrite bool
	FailShort     int
	WriteFails    int
	dead     bool // the process owning this disk has crashed: nothing it still does has an effect
}

var errDead = errors.New("simfs: process is dead")

var (
	registry sync.Map // id -> *FS
	nextID   int64
	escapes  sync.Map // goroutine-agnostic list of escaped paths: path -> true
)

// ---- scheduling points ----
//
// A simulated task (one goroutine of a baton scheduler) may register a hook that is called, with no lock
// held, before every file-system call it makes: the scheduler can then let another task's file-system
// calls happen in between (between creating a temporary file and renaming it, say). Hooks are per
// goroutine; nothing is looked up while no hook is registered anywhere.

var (
	opHooks     sync.Map // goroutine id -> func(kind string)
	opHookCount int32
)

func goid() string {
	var buf [64]byte
	n := runtime.Stack(buf[:], false)
	f := strings.Fields(string(buf[:n]))
	if len(f) >= 2 {
		return f[1]
	}
	return ""
}

// SetOpHook registers h for the calling goroutine; ClearOpHook removes it.
func SetOpHook(h func(kind string)) {
	if _, had := opHooks.Swap(goid(), h); !had {
		atomic.AddInt32(&opHookCount, 1)
	}
}

func ClearOpHook() {
	if _, had := opHooks.LoadAndDelete(goid()); had {
		atomic.AddInt32(&opHookCount, -1)
	}
}

func pre(kind string) {
	if atomic.LoadInt32(&opHookCount) == 0 {
		return
	}
	if h, ok := opHooks.Load(goid()); ok {
		h.(func(string))(kind)
	}
}

// New creates and mounts a new disk.
func New() *FS {
	f := &FS{id: atomic.AddInt64(&nextID, 1), nodes: map[string]*inode{"/": {dir: true}}}
	registry.Store(f.id, f)
	return f
}

// Root is the mount point of the disk.
func (f *FS) Root() string { return "/simfs/" + strconv.FormatInt(f.id, 10) }

// Unmount removes the disk from the registry.
func (f *FS) Unmount() { registry.Delete(f.id) }

// Clone copies the disk contents into a new mounted disk.
func (f *FS) Clone() *FS {
	f.mu.Lock()
	defer f.mu.Unlock()
	g := New()
	for k, v := range f.nodes {
		g.nodes[k] = &inode{data: append([]byte(nil), v.data...), dir: v.dir}
	}
	g.tmpSeq = f.tmpSeq
	return g
}

// Files returns a copy of all regular files (path relative to the mount root).
func (f *FS) Files() map[string][]byte {
	f.mu.Lock()
	defer f.mu.Unlock()
	m := map[string][]byte{}
	for k, v := range f.nodes {
		if !v.dir {
			m[k] = append([]byte(nil), v.data...)
		}
	}
	return m
}

// SetFile writes a file directly (harness use: corruption, seeding).
func (f *FS) SetFile(p string, data []byte) {
	f.mu.Lock()
	defer f.mu.Unlock()
	f.nodes[p] = &inode{data: append([]byte(nil), data...)}
}

func (f *FS) RemoveFile(p string) {
	f.mu.Lock()
	defer f.mu.Unlock()
	delete(f.nodes, p)
}

// Arm arms a crash at micro-step `step` (1-based, counted from ResetLog) after `off` bytes
// of it have been written (off is only meaningful for write steps; 0 = before the step).
func (f *FS) Arm(step, off int) {
	f.mu.Lock()
	f.armed, f.crashStep, f.crashOff = true, step, off
	f.mu.Unlock()
}

func (f *FS) Disarm() {
	f.mu.Lock()
	f.armed = false
	f.mu.Unlock()
}

// Mark adds a marker to the step log (not a crash point, not counted).
func (f *FS) Mark(kind, p string) {
	f.mu.Lock()
	if f.Record && !f.dead {
		f.Log = append(f.Log, StepInfo{Kind: kind, Path: p, Len: f.steps})
	}
	f.mu.Unlock()
}

// Dead reports whether the owning process has crashed.
func (f *FS) Dead() bool { return f.dead }

// ResetLog restarts micro-step counting.
func (f *FS) ResetLog() {
	f.mu.Lock()
	f.steps = 0
	f.Log = nil
	f.mu.Unlock()
}

func (f *FS) Steps() int { return f.steps }

// step registers a mutating micro-step; must be called with f.mu held. It returns the
// number of bytes of the step that may be performed before the crash (-1: no crash).
func (f *FS) step(kind, p string, n int) (int, error) {
	if f.dead {
		return -1, errDead
	}
	f.steps++
	if f.Record {
		f.Log = append(f.Log, StepInfo{kind, p, n})
	}
	if f.FailStep > 0 && f.steps == f.FailStep {
		return -1, f.FailErr
	}
	if f.armed && f.steps == f.crashStep {
		return f.crashOff, nil
	}
	return -1, nil
}

func (f *FS) crash(off int) {
	st := f.steps
	f.armed = false
	f.dead = true
	f.mu.Unlock()
	panic(Crash{Step: st, Offset: off})
}

// resolve maps an absolute path to its disk and inner path.
func resolve(name string) (*FS, string, error) {
	p := path.Clean(name)
	if !strings.HasPrefix(p, "/simfs/") {
		escapes.Store(name, true)
		return nil, "", &PathError{Op: "open", Path: name, Err: fmt.Errorf("simfs: path outside simulated disks: %w", iofs.ErrPermission)}
	}
	rest := p[len("/simfs/"):]
	idStr := rest
	inner := "/"
	if i := strings.Index(rest, "/"); i >= 0 {
		idStr = rest[:i]
		inner = rest[i:]
	}
	id, err := strconv.ParseInt(idStr, 10, 64)
	if err != nil {
		escapes.Store(name, true)
		return nil, "", &PathError{Op: "open", Path: name, Err: iofs.ErrNotExist}
	}
	v, ok := registry.Load(id)
	if !ok {
		escapes.Store(name, true)
		return nil, "", &PathError{Op: "open", Path: name, Err: iofs.ErrNotExist}
	}
	// NAME_MAX, as every common file system has it: no path component longer than 255 bytes
	for _, comp := range strings.Split(inner, "/") {
		if len(comp) > NameMax {
			return nil, "", &PathError{Op: "open", Path: name, Err: syscall.ENAMETOOLONG}
		}
	}
	return v.(*FS), inner, nil
}

// NameMax is the longest file name the simulated file system accepts.
const NameMax = 255

// TakeEscapes returns and clears the paths that were addressed outside any mounted disk
// and contain the given substring (the caller's mount root id).
func TakeEscapes(substr string) []string {
	var out []string
	escapes.Range(func(k, _ interface{}) bool {
		s := k.(string)
		if strings.Contains(s, substr) {
			out = append(out, s)
			escapes.Delete(k)
		}
		return true
	})
	sort.Strings(out)
	return out
}

func (f *FS) parentOK(p string) error {
	d := path.Dir(p)
	n, ok := f.nodes[d]
	if !ok {
		return iofs.ErrNotExist
	}
	if !n.dir {
		return errors.New("not a directory")
	}
	return nil
}

// ---- files ----

type File struct {
	fs      *FS
	name    string // as given
	inner   string
	ino     *inode
	pos     int
	flag    int
	closed  bool
	dirRead bool
}

func (fl *File) Name() string { return fl.name }

func OpenFile(name string, flag int, perm FileMode) (*File, error) {
	pre("open")
	f, p, err := resolve(name)
	if err != nil {
		return nil, err
	}
	f.mu.Lock()
	n, ok := f.nodes[p]
	if ok && flag&O_CREATE != 0 && flag&O_EXCL != 0 {
		f.mu.Unlock()
		return nil, &PathError{Op: "open", Path: name, Err: iofs.ErrExist}
	}
	if !ok {
		if flag&O_CREATE == 0 {
			f.mu.Unlock()
			return nil, &PathError{Op: "open", Path: name, Err: iofs.ErrNotExist}
		}
		if e := f.parentOK(p); e != nil {
			f.mu.Unlock()
			return nil, &PathError{Op: "open", Path: name, Err: e}
		}
		off, ferr := f.step("create", p, 0)
		if ferr != nil {
			f.mu.Unlock()
			return nil, &PathError{Op: "open", Path: name, Err: ferr}
		}
		if off >= 0 {
			f.crash(off)
		}
		n = &inode{}
		f.nodes[p] = n
	} else if n.dir {
		if flag&(O_WRONLY|O_RDWR) != 0 {
			f.mu.Unlock()
			return nil, &PathError{Op: "open", Path: name, Err: errors.New("is a directory")}
		}
	} else if flag&O_TRUNC != 0 && flag&(O_WRONLY|O_RDWR) != 0 {
		off, ferr := f.step("truncate", p, 0)
		if ferr != nil {
			f.mu.Unlock()
			return nil, &PathError{Op: "open", Path: name, Err: ferr}
		}
		if off >= 0 {
			f.crash(off)
		}
		n.data = nil
	}
	f.mu.Unlock()
	return &File{fs: f, name: name, inner: p, ino: n, flag: flag}, nil
}

func Open(name string) (*File, error) { return OpenFile(name, O_RDONLY, 0) }
func Create(name string) (*File, error) {
	return OpenFile(name, O_RDWR|O_CREATE|O_TRUNC, 0666)
}

func CreateTemp(dir, pattern string) (*File, error) {
	pre("createtemp")
	if dir == "" {
		dir = TempDir()
	}
	f, _, err := resolve(dir)
	if err != nil {
		return nil, err
	}
	for {
		f.mu.Lock()
		f.tmpSeq++
		seq := f.tmpSeq
		f.mu.Unlock()
		var name string
		if i := strings.LastIndex(pattern, "*"); i >= 0 {
			name = pattern[:i] + strconv.Itoa(1000+seq) + pattern[i+1:]
		} else {
			name = pattern + strconv.Itoa(1000+seq)
		}
		fl, err := OpenFile(path.Join(dir, name), O_RDWR|O_CREATE|O_EXCL, 0600)
		if IsExist(err) {
			continue
		}
		return fl, err
	}
}

func TempDir() string { return "/tmp" }

func (fl *File) Write(b []byte) (int, error) {
	pre("write")
	if fl.closed {
		return 0, iofs.ErrClosed
	}
	if fl.flag&(O_WRONLY|O_RDWR) == 0 {
		return 0, &PathError{Op: "write", Path: fl.name, Err: errors.New("bad file descriptor")}
	}
	f := fl.fs
	f.mu.Lock()
	off, ferr := f.step("write", fl.inner, len(b))
	if ferr != nil {
		f.mu.Unlock()
		return 0, &PathError{Op: "write", Path: fl.name, Err: ferr}
	}
	n := len(b)
	if off >= 0 && off < n {
		n = off
	}
	var short error
	if f.FailNextWrite && off < 0 {
		f.FailNextWrite = false
		f.WriteFails++
		if f.FailShort < n {
			n = f.FailShort
		}
		short = &PathError{Op: "write", Path: fl.name, Err: syscall.ENOSPC}
	}
	if fl.flag&O_APPEND != 0 {
		fl.pos = len(fl.ino.data)
	}
	end := fl.pos + n
	if end > len(fl.ino.data) {
		nd := make([]byte, end)
		copy(nd, fl.ino.data)
		fl.ino.data = nd
	}
	copy(fl.ino.data[fl.pos:end], b[:n])
	fl.pos = end
	if off >= 0 {
		f.crash(off)
	}
	f.mu.Unlock()
	return n, short
}

func (fl *File) WriteString(s string) (int, error) { return fl.Write([]byte(s)) }

func (fl *File) Read(b []byte) (int, error) {
	if fl.closed {
		return 0, iofs.ErrClosed
	}
	fl.fs.mu.Lock()
	defer fl.fs.mu.Unlock()
	if fl.ino.dir {
		return 0, &PathError{Op: "read", Path: fl.name, Err: errors.New("is a directory")}
	}
	if fl.pos >= len(fl.ino.data) {
		return 0, io.EOF
	}
	n := copy(b, fl.ino.data[fl.pos:])
	fl.pos += n
	return n, nil
}

func (fl *File) Seek(offset int64, whence int) (int64, error) {
	fl.fs.mu.Lock()
	defer fl.fs.mu.Unlock()
	switch whence {
	case io.SeekStart:
		fl.pos = int(offset)
	case io.SeekCurrent:
		fl.pos += int(offset)
	case io.SeekEnd:
		fl.pos = len(fl.ino.data) + int(offset)
	}
	if fl.pos < 0 {
		fl.pos = 0
	}
	return int64(fl.pos), nil
}

func (fl *File) Truncate(size int64) error {
	f := fl.fs
	f.mu.Lock()
	off, ferr := f.step("truncate", fl.inner, 0)
	if ferr != nil {
		f.mu.Unlock()
		return ferr
	}
	if off >= 0 {
		f.crash(off)
	}
	if int(size) <= len(fl.ino.data) {
		fl.ino.data = fl.ino.data[:size]
	} else {
		nd := make([]byte, size)
		copy(nd, fl.ino.data)
		fl.ino.data = nd
	}
	f.mu.Unlock()
	return nil
}

func (fl *File) Sync() error {
	f := fl.fs
	f.mu.Lock()
	off, ferr := f.step("sync", fl.inner, 0)
	if ferr != nil {
		f.mu.Unlock()
		return ferr
	}
	if off >= 0 {
		f.crash(off)
	}
	f.Syncs++
	f.mu.Unlock()
	return nil
}

func (fl *File) Chmod(mode FileMode) error { return nil }

func (fl *File) Close() error {
	if fl.closed {
		return iofs.ErrClosed
	}
	f := fl.fs
	if fl.flag&(O_WRONLY|O_RDWR) != 0 {
		f.mu.Lock()
		off, ferr := f.step("close", fl.inner, 0)
		if ferr != nil {
			fl.closed = true
			f.mu.Unlock()
			return ferr
		}
		if off >= 0 {
			f.crash(off)
		}
		f.mu.Unlock()
	}
	fl.closed = true
	return nil
}

type fileInfo struct {
	name string
	size int64
	dir  bool
}

func (i fileInfo) Name() string { return i.name }
func (i fileInfo) Size() int64  { return i.size }
func (i fileInfo) Mode() FileMode {
	if i.dir {
		return iofs.ModeDir | 0700
	}
	return 0600
}
func (i fileInfo) ModTime() time.Time      { return time.Time{} }
func (i fileInfo) IsDir() bool             { return i.dir }
func (i fileInfo) Sys() interface{}        { return nil }
func (i fileInfo) Type() FileMode          { return i.Mode().Type() }
func (i fileInfo) Info() (FileInfo, error) { return i, nil }

func (fl *File) Stat() (FileInfo, error) {
	fl.fs.mu.Lock()
	defer fl.fs.mu.Unlock()
	return fileInfo{path.Base(fl.inner), int64(len(fl.ino.data)), fl.ino.dir}, nil
}

func (fl *File) ReadDir(n int) ([]DirEntry, error) {
	if fl.dirRead {
		if n > 0 {
			return nil, io.EOF
		}
		return nil, nil
	}
	fl.dirRead = true
	return ReadDir(fl.name)
}

func (fl *File) Readdirnames(n int) ([]string, error) {
	es, err := fl.ReadDir(n)
	var names []string
	for _, e := range es {
		names = append(names, e.Name())
	}
	return names, err
}

// ---- directory and path operations ----

func Stat(name string) (FileInfo, error) {
	f, p, err := resolve(name)
	if err != nil {
		return nil, err
	}
	f.mu.Lock()
	defer f.mu.Unlock()
	n, ok := f.nodes[p]
	if !ok {
		return nil, &PathError{Op: "stat", Path: name, Err: iofs.ErrNotExist}
	}
	return fileInfo{path.Base(p), int64(len(n.data)), n.dir}, nil
}

func Lstat(name string) (FileInfo, error) { return Stat(name) }

func Mkdir(name string, perm FileMode) error {
	f, p, err := resolve(name)
	if err != nil {
		return err
	}
	f.mu.Lock()
	defer f.mu.Unlock()
	if _, ok := f.nodes[p]; ok {
		return &PathError{Op: "mkdir", Path: name, Err: iofs.ErrExist}
	}
	if e := f.parentOK(p); e != nil {
		return &PathError{Op: "mkdir", Path: name, Err: e}
	}
	f.nodes[p] = &inode{dir: true}
	return nil
}

func MkdirAll(name string, perm FileMode) error {
	f, p, err := resolve(name)
	if err != nil {
		return err
	}
	f.mu.Lock()
	defer f.mu.Unlock()
	parts := strings.Split(strings.Trim(p, "/"), "/")
	cur := ""
	for _, part := range parts {
		if part == "" {
			continue
		}
		cur += "/" + part
		n, ok := f.nodes[cur]
		if ok {
			if !n.dir {
				return &PathError{Op: "mkdir", Path: name, Err: errors.New("not a directory")}
			}
			continue
		}
		f.nodes[cur] = &inode{dir: true}
	}
	return nil
}

func ReadDir(name string) ([]DirEntry, error) {
	pre("readdir")
	f, p, err := resolve(name)
	if err != nil {
		return nil, err
	}
	f.mu.Lock()
	defer f.mu.Unlock()
	n, ok := f.nodes[p]
	if !ok {
		return nil, &PathError{Op: "open", Path: name, Err: iofs.ErrNotExist}
	}
	if !n.dir {
		return nil, &PathError{Op: "readdir", Path: name, Err: errors.New("not a directory")}
	}
	var out []DirEntry
	prefix := p
	if prefix != "/" {
		prefix += "/"
	}
	var names []string
	for k := range f.nodes {
		if k == p || !strings.HasPrefix(k, prefix) {
			continue
		}
		rest := k[len(prefix):]
		if strings.Contains(rest, "/") {
			continue
		}
		names = append(names, rest)
	}
	sort.Strings(names)
	for _, nm := range names {
		c := f.nodes[prefix+nm]
		out = append(out, fileInfo{nm, int64(len(c.data)), c.dir})
	}
	return out, nil
}

func Rename(oldname, newname string) error {
	pre("rename")
	f, po, err := resolve(oldname)
	if err != nil {
		return err
	}
	g, pn, err := resolve(newname)
	if err != nil {
		return err
	}
	if f != g {
		return errors.New("simfs: cross-device rename")
	}
	f.mu.Lock()
	n, ok := f.nodes[po]
	if !ok {
		f.mu.Unlock()
		return &PathError{Op: "rename", Path: oldname, Err: iofs.ErrNotExist}
	}
	if e := f.parentOK(pn); e != nil {
		f.mu.Unlock()
		return &PathError{Op: "rename", Path: newname, Err: e}
	}
	off, ferr := f.step("rename", pn, 0)
	if ferr != nil {
		f.mu.Unlock()
		return ferr
	}
	if off >= 0 {
		f.crash(off)
	}
	delete(f.nodes, po)
	f.nodes[pn] = n
	f.mu.Unlock()
	return nil
}

func Remove(name string) error {
	pre("remove")
	f, p, err := resolve(name)
	if err != nil {
		return err
	}
	f.mu.Lock()
	if _, ok := f.nodes[p]; !ok {
		f.mu.Unlock()
		return &PathError{Op: "remove", Path: name, Err: iofs.ErrNotExist}
	}
	off, ferr := f.step("remove", p, 0)
	if ferr != nil {
		f.mu.Unlock()
		return ferr
	}
	if off >= 0 {
		f.crash(off)
	}
	delete(f.nodes, p)
	f.mu.Unlock()
	return nil
}

func RemoveAll(name string) error {
	f, p, err := resolve(name)
	if err != nil {
		return err
	}
	f.mu.Lock()
	defer f.mu.Unlock()
	for k := range f.nodes {
		if k == p || strings.HasPrefix(k, p+"/") {
			delete(f.nodes, k)
		}
	}
	return nil
}

func Getpid() int { return 4242 }

// ---- identifiers of package io/ioutil (and their os equivalents) ----

func ReadAll(r io.Reader) ([]byte, error) { return io.ReadAll(r) }

func ReadFile(name string) ([]byte, error) {
	fl, err := Open(name)
	if err != nil {
		return nil, err
	}
	defer fl.Close()
	return io.ReadAll(fl)
}

// WriteFile is modelled as the standard library implements it:
// open with create+truncate, write, close.
func WriteFile(name string, data []byte, perm FileMode) error {
	fl, err := OpenFile(name, O_WRONLY|O_CREATE|O_TRUNC, perm)
	if err != nil {
		return err
	}
	_, err = fl.Write(data)
	if err1 := fl.Close(); err1 != nil && err == nil {
		err = err1
	}
	return err
}

func TempFile(dir, pattern string) (*File, error) { return CreateTemp(dir, pattern) }
