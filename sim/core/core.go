// Package core is the run loop of visim: seeded runs in parallel, violation handling,
// known findings, minimisation, replay files and evidence.
package core

import (
	"encoding/json"
	"os/exec"
	"fmt"
	"hash/fnv"
	"os"
	"path/filepath"
	"runtime"
	"runtime/debug"
	"sort"
	"strings"
	"sync"
	"sync/atomic"
	"time"

	"visim/tape"
)

// Violation of a property found by an oracle.
type Violation struct {
	Class string            `json:"class"` // short stable string chosen by the oracle
	Msg   string            `json:"message"`
	Step  int               `json:"step"`
	Attrs map[string]string `json:"attrs,omitempty"` // discriminating attributes (known-finding matching)
}

func (v *Violation) String() string { return v.Class + ": " + v.Msg }

// Sig is the signature that minimisation preserves: class plus discriminating attributes.
func (v *Violation) Sig() string {
	var ks []string
	for k := range v.Attrs {
		ks = append(ks, k)
	}
	sort.Strings(ks)
	s := v.Class
	for _, k := range ks {
		s += "|" + k + "=" + v.Attrs[k]
	}
	return s
}

// Outcome of one simulated run.
type Outcome struct {
	V          *Violation
	Also       []*Violation // further violations seen in the same run (the first one not matching a known finding is reported)
	Nontrivial bool
	States     []uint64 // abstract states visited by this run (hashes)
	Faults     map[string]int
	Probes     map[string]int
	Counts     map[string]int // additive counters: requests, ticks, crash_points, ...
	TraceHash  uint64
	Scenario   interface{} // readable scenario; only filled when Ctx.WantScenario
}

func NewOutcome() *Outcome {
	return &Outcome{Faults: map[string]int{}, Probes: map[string]int{}, Counts: map[string]int{}}
}

func (o *Outcome) Fail(class string, step int, attrs map[string]string, format string, a ...interface{}) *Outcome {
	if o.V == nil {
		o.V = &Violation{Class: class, Msg: fmt.Sprintf(format, a...), Step: step, Attrs: attrs}
	}
	return o
}

func (o *Outcome) Fingerprint() uint64 {
	h := fnv.New64a()
	var b [8]byte
	for _, s := range o.States {
		for i := 0; i < 8; i++ {
			b[i] = byte(s >> (8 * i))
		}
		h.Write(b[:])
	}
	return h.Sum64()
}

// Ctx is what a check's Run receives.
type Ctx struct {
	T            *tape.Tape
	Tier         string
	WantScenario bool
	RunIndex     uint64
	Avoid        map[string]bool // known-finding shapes the generators must avoid (strict batch)
}

// Check is one property's simulation.
type Check struct {
	ID          string
	Level       string // exploration | fault_enumeration
	Rule        string
	Runs        map[string]int // per tier
	MaxSeconds  map[string]int // soft wall-clock cap per tier (stops early, never fails)
	Run         func(c *Ctx) *Outcome
	Assumptions []string
	Real        []string
	Stub        []string
	FaultKinds  []string // fault kinds this check can inject (reported even when 0)
	Post        func(ev map[string]interface{}) // optional: add check-specific coverage keys
	// Prefix optionally fixes the first draws of run i (systematic sub-batches); nil = none.
	Prefix func(tier string, i uint64) []uint64
	// After runs once after a clean in-process batch (e.g. the race-detector phase in child
	// processes). It may add coverage keys and report violations found outside the process.
	After func(opt Options, cov map[string]interface{}) ([]ExtViolation, error)
	// HangIsViolation: a run that does not terminate (confirmed twice in fresh processes) violates
	// the property itself (it promises that requests are served); otherwise a confirmed hang is
	// reported as infrastructure trouble (exit 2) with a replay file.
	HangIsViolation bool
	// HangSeconds overrides the per-run limit (default 30) after which a run is probed for a hang.
	HangSeconds int
	// AfterFirst runs the After phase BEFORE the in-process batch (C19: hidden shared state in
	// the library would crash a multi-worker batch with a Go fatal error before it could be
	// reported; the child processes report it as a data race).
	AfterFirst bool
}

// ExtViolation is a violation found by a child process for run RunIndex.
type ExtViolation struct {
	RunIndex uint64
	Class    string
	Msg      string
}

// RunStripe executes runs start, start+stride, ... (count of them) of a check in this
// process, printing "RUN <i>" before each. Used by the race-detector child processes.
func RunStripe(id, tier string, seed, start, stride, count uint64) int {
	ch := Registry[id]
	if ch == nil {
		return 2
	}
	ff, _ := LoadFindings(filepath.Join(verifDir(), "known_findings.json"))
	avoid := map[string]bool{}
	if ff != nil {
		avoid = ff.AvoidSet(id)
	}
	for k := uint64(0); k < count; k++ {
		i := start + k*stride
		fmt.Printf("RUN %d\n", i)
		os.Stdout.Sync()
		t := newRunTape(ch, tier, seed, i)
		_, infra := runOnce(ch, &Ctx{T: t, Tier: tier, RunIndex: i, Avoid: avoid})
		if infra != nil {
			fmt.Fprintf(os.Stderr, "INFRASTRUCTURE ERROR: %v\n", infra)
			return 2
		}
	}
	fmt.Println("STRIPE-DONE")
	return 0
}

func verifDir() string {
	if v := os.Getenv("VERIF_DIR"); v != "" {
		return v
	}
	return "/verif"
}

func newRunTape(ch *Check, tier string, seed uint64, i uint64) *tape.Tape {
	t := tape.NewSeeded(tape.Mix(seed, ch.ID, i))
	if ch.Prefix != nil {
		if p := ch.Prefix(tier, i); p != nil {
			t.Preload(p)
		}
	}
	return t
}

var Registry = map[string]*Check{}

func Register(c *Check) { Registry[c.ID] = c }

// ---------------------------------------------------------------------------------------
// known findings

type Finding struct {
	Property string            `json:"property"`
	Class    string            `json:"class"`
	Match    map[string]string `json:"match,omitempty"`
	What     string            `json:"what"`
	Avoid    string            `json:"avoid,omitempty"`
}

type FindingsFile struct {
	Findings []Finding `json:"findings"`
	Fixed    []string  `json:"fixed"`
}

func LoadFindings(path string) (*FindingsFile, error) {
	ff := &FindingsFile{}
	b, err := os.ReadFile(path)
	if err != nil {
		if os.IsNotExist(err) {
			return ff, nil
		}
		return nil, err
	}
	if err := json.Unmarshal(b, ff); err != nil {
		return nil, err
	}
	return ff, nil
}

func (ff *FindingsFile) Match(prop string, v *Violation) *Finding {
	for i := range ff.Findings {
		f := &ff.Findings[i]
		if f.Property != prop || f.Class != v.Class {
			continue
		}
		ok := true
		for k, want := range f.Match {
			if v.Attrs[k] != want {
				ok = false
				break
			}
		}
		if ok {
			return f
		}
	}
	return nil
}

func (ff *FindingsFile) AvoidSet(prop string) map[string]bool {
	m := map[string]bool{}
	for _, f := range ff.Findings {
		if f.Property == prop && f.Avoid != "" {
			m[f.Avoid] = true
		}
	}
	return m
}

// ---------------------------------------------------------------------------------------
// replay files

type ReplayFile struct {
	Property  string       `json:"property"`
	Seed      uint64       `json:"seed"`
	RunIndex  uint64       `json:"run_index"`
	Tier      string       `json:"tier"`
	Class     string       `json:"class"`
	Message   string       `json:"message"`
	Step      int          `json:"step"`
	Attrs     map[string]string `json:"attrs,omitempty"`
	Avoid     []string     `json:"avoid,omitempty"`
	Tape      []uint64     `json:"tape"`
	Blocks    []tape.Block `json:"blocks,omitempty"`
	Scenario  interface{}  `json:"scenario,omitempty"`
	TraceHash string       `json:"trace_hash"`
	Shrunk    bool         `json:"shrunk"`
	OrigLen   int          `json:"orig_tape_len"`
	HangSecs  int          `json:"hang_seconds,omitempty"` // class "hang": the run did not end within this many seconds
}

// ---------------------------------------------------------------------------------------
// executing one run safely

// InfraError is raised (exit 2) for harness trouble; never a violation.
type InfraError struct{ Msg string }

func (e *InfraError) Error() string { return e.Msg }

func runOnce(ch *Check, c *Ctx) (out *Outcome, infra error) {
	defer func() {
		if r := recover(); r != nil {
			infra = &InfraError{Msg: fmt.Sprintf("unguarded panic in run %d of %s: %v\n%s", c.RunIndex, ch.ID, r, debug.Stack())}
		}
	}()
	out = ch.Run(c)
	return out, nil
}

func avoidList(m map[string]bool) []string {
	var l []string
	for k := range m {
		l = append(l, k)
	}
	sort.Strings(l)
	return l
}

// ---------------------------------------------------------------------------------------
// shrinking

type shrinker struct {
	ch      *Check
	tier    string
	class   string
	avoid   map[string]bool
	execs   int
	maxExec int
	deadline time.Time
	best    []uint64
	bestBlocks []tape.Block
	// hangSecs > 0: the violation is a hang; candidates are executed in child processes that give up after hangSecs
	hangSecs int
}

func (s *shrinker) try(vals []uint64) bool {
	if s.execs >= s.maxExec || time.Now().After(s.deadline) {
		return false
	}
	s.execs++
	if s.hangSecs > 0 {
		used, blocks, hung := probeTape(s.ch, s.tier, vals, avoidList(s.avoid), s.hangSecs)
		if !hung {
			return false
		}
		for len(used) > 0 && used[len(used)-1] == 0 {
			used = used[:len(used)-1]
		}
		if less(used, s.best) {
			s.best = used
			s.bestBlocks = blocks
			return true
		}
		return false
	}
	t := tape.NewReplay(vals)
	c := &Ctx{T: t, Tier: s.tier, Avoid: s.avoid}
	out, infra := runOnce(s.ch, c)
	if infra != nil || out == nil || out.V == nil {
		return false
	}
	found := out.V.Sig() == s.class
	for _, v := range out.Also {
		if v.Sig() == s.class {
			found = true
		}
	}
	if !found {
		return false
	}
	used := t.Used()
	// trim trailing zeros: draws past the end are 0 anyway
	for len(used) > 0 && used[len(used)-1] == 0 {
		used = used[:len(used)-1]
	}
	if less(used, s.best) {
		s.best = used
		s.bestBlocks = t.Blocks()
		return true
	}
	return false
}

// less orders tapes: shorter first, then lexicographically smaller.
func less(a, b []uint64) bool {
	if len(a) != len(b) {
		return len(a) < len(b)
	}
	for i := range a {
		if a[i] != b[i] {
			return a[i] < b[i]
		}
	}
	return false
}

func (s *shrinker) run() {
	improved := true
	for improved && s.execs < s.maxExec && time.Now().Before(s.deadline) {
		improved = false
		// 1. delete blocks, largest first
		blocks := append([]tape.Block(nil), s.bestBlocks...)
		sort.SliceStable(blocks, func(i, j int) bool { return (blocks[i].End - blocks[i].Start) > (blocks[j].End - blocks[j].Start) })
		for _, b := range blocks {
			if b.End > len(s.best) {
				if b.Start >= len(s.best) {
					continue
				}
				b.End = len(s.best)
			}
			cand := append(append([]uint64(nil), s.best[:b.Start]...), s.best[b.End:]...)
			if s.try(cand) {
				improved = true
				break // block indices are stale now
			}
		}
		if improved {
			continue
		}
		// 2. delete chunks of k values
		for _, k := range []int{32, 16, 8, 4, 2, 1} {
			for i := len(s.best) - k; i >= 0; {
				if i+k > len(s.best) {
					i = len(s.best) - k
					if i < 0 {
						break
					}
				}
				cand := append(append([]uint64(nil), s.best[:i]...), s.best[i+k:]...)
				if s.try(cand) {
					improved = true
					i -= k
				} else {
					i--
				}
				if s.execs >= s.maxExec {
					break
				}
			}
		}
		// 3. zero blocks
		for _, b := range append([]tape.Block(nil), s.bestBlocks...) {
			if b.End > len(s.best) {
				continue
			}
			allZero := true
			for _, v := range s.best[b.Start:b.End] {
				if v != 0 {
					allZero = false
				}
			}
			if allZero {
				continue
			}
			cand := append([]uint64(nil), s.best...)
			for i := b.Start; i < b.End; i++ {
				cand[i] = 0
			}
			if s.try(cand) {
				improved = true
			}
		}
		// 4. lower single values
		for i := 0; i < len(s.best); i++ {
			if s.best[i] == 0 {
				continue
			}
			cand := append([]uint64(nil), s.best...)
			cand[i] = 0
			if s.try(cand) {
				improved = true
				continue
			}
			lo, hi := uint64(0), s.best[i] // lo fails, hi works
			for hi-lo > 1 && s.execs < s.maxExec {
				mid := lo + (hi-lo)/2
				if i >= len(s.best) {
					break
				}
				cand := append([]uint64(nil), s.best...)
				cand[i] = mid
				if s.try(cand) {
					improved = true
					if i < len(s.best) {
						hi = s.best[i]
					} else {
						break
					}
				} else {
					lo = mid
				}
			}
		}
	}
}

// ---------------------------------------------------------------------------------------
// the batch loop

type Options struct {
	ID        string
	Tier      string
	Seed      uint64
	Workers   int
	VerifDir  string
	OutDir    string // evidence and replays are written below this directory (default VerifDir)
	RunsOverride int
	NoShrink  bool
	Quiet     bool
}

type agg struct {
	mu        sync.Mutex
	evals     int
	nontriv   map[uint64]struct{}
	states    map[uint64]struct{}
	faults    map[string]int
	probes    map[string]int
	counts    map[string]int
	samples   []interface{}
	hashes    map[uint64]uint64 // run index -> trace hash (sampled)
}

func hashString(s string) uint64 {
	h := fnv.New64a()
	h.Write([]byte(s))
	return h.Sum64()
}

// RunBatch executes a tier of a check. Returns the process exit code.
func RunBatch(opt Options) int {
	ch := Registry[opt.ID]
	if ch == nil {
		fmt.Fprintf(os.Stderr, "unknown check %s\n", opt.ID)
		return 2
	}
	start := time.Now()
	if opt.OutDir == "" {
		opt.OutDir = opt.VerifDir
	}
	ff, err := LoadFindings(filepath.Join(opt.VerifDir, "known_findings.json"))
	if err != nil {
		fmt.Fprintf(os.Stderr, "known_findings.json unreadable: %v\n", err)
		return 2
	}
	avoid := ff.AvoidSet(opt.ID)
	n := ch.Runs[opt.Tier]
	if opt.RunsOverride > 0 {
		n = opt.RunsOverride
	}
	if n == 0 {
		n = 100
	}
	maxSec := ch.MaxSeconds[opt.Tier]
	if maxSec == 0 {
		if opt.Tier == "thorough" {
			maxSec = 900
		} else {
			maxSec = 60
		}
	}
	deadline := start.Add(time.Duration(maxSec) * time.Second)
	workers := opt.Workers
	if workers <= 0 {
		workers = runtime.GOMAXPROCS(0)
	}
	fmt.Printf("visim check %s tier=%s seed=%d runs=%d workers=%d\n", opt.ID, opt.Tier, opt.Seed, n, workers)

	extCov := map[string]interface{}{}
	var ext []ExtViolation
	if ch.After != nil && ch.AfterFirst {
		var err error
		ext, err = ch.After(opt, extCov)
		if err != nil {
			fmt.Fprintf(os.Stderr, "INFRASTRUCTURE ERROR: %v\n", err)
			return 2
		}
		if len(ext) > 0 {
			n = 1 // the batch only serves to write the evidence; the violation is reported below
		}
	}
	a := &agg{nontriv: map[uint64]struct{}{}, states: map[uint64]struct{}{}, faults: map[string]int{}, probes: map[string]int{}, counts: map[string]int{}, hashes: map[uint64]uint64{}}
	for _, k := range ch.FaultKinds {
		a.faults[k] = 0
	}
	sampleEvery := uint64(n/24 + 1)
	var next uint64
	var stop int32
	var infraErr atomic.Value
	type vio struct {
		idx  uint64
		out  *Outcome
		vals []uint64
		blocks []tape.Block
	}
	var vmu sync.Mutex
	var unknown []vio
	knownSeen := map[string]int{}
	knownWhat := map[string]*Finding{}
	stoppedEarly := false

	dumpStates := os.Getenv("VISIM_DUMP_STATES") != "" // debugging aid for the distinct-states measure
	hangSecs := ch.HangSeconds
	if hangSecs == 0 {
		hangSecs = 30
	}
	slotIdx := make([]uint64, workers)
	slotStart := make([]int64, workers)
	var wg sync.WaitGroup
	for w := 0; w < workers; w++ {
		wg.Add(1)
		w := w
		go func() {
			defer wg.Done()
			for atomic.LoadInt32(&stop) == 0 {
				i := atomic.AddUint64(&next, 1) - 1
				if i >= uint64(n) {
					return
				}
				if i%64 == 0 && time.Now().After(deadline) {
					vmu.Lock()
					stoppedEarly = true
					vmu.Unlock()
					atomic.StoreInt32(&stop, 1)
					return
				}
				t := newRunTape(ch, opt.Tier, opt.Seed, i)
				c := &Ctx{T: t, Tier: opt.Tier, RunIndex: i, Avoid: avoid, WantScenario: i < 3}
				atomic.StoreUint64(&slotIdx[w], i)
				atomic.StoreInt64(&slotStart[w], time.Now().UnixNano())
				out, infra := runOnce(ch, c)
				atomic.StoreInt64(&slotStart[w], 0)
				if infra != nil {
					infraErr.Store(infra)
					atomic.StoreInt32(&stop, 1)
					return
				}
				if dumpStates {
					fmt.Fprintf(os.Stderr, "STATES %d %x\n", i, out.States)
				}
				a.mu.Lock()
				a.evals++
				if out.Nontrivial {
					a.nontriv[out.Fingerprint()] = struct{}{}
				}
				if len(a.states) < 4000000 {
					for _, s := range out.States {
						a.states[s] = struct{}{}
					}
				}
				for k, v := range out.Faults {
					a.faults[k] += v
				}
				for k, v := range out.Probes {
					a.probes[k] += v
				}
				for k, v := range out.Counts {
					a.counts[k] += v
				}
				if out.Scenario != nil && len(a.samples) < 3 {
					a.samples = append(a.samples, out.Scenario)
				}
				if i%sampleEvery == 0 && len(a.hashes) < 64 {
					a.hashes[i] = out.TraceHash
				}
				a.mu.Unlock()
				if out.V != nil {
					vmu.Lock()
					// a run may carry several violations: known findings are counted, the first
					// unknown one is the run's violation
					all := append([]*Violation{out.V}, out.Also...)
					var unk *Violation
					for _, v := range all {
						if f := ff.Match(ch.ID, v); f != nil {
							key := f.Class + "|" + f.What
							knownSeen[key]++
							knownWhat[key] = f
						} else if unk == nil {
							unk = v
						}
					}
					if unk == nil {
						// all known
					} else {
						out.V = unk
						unknown = append(unknown, vio{idx: i, out: out, vals: t.Used(), blocks: t.Blocks()})
						if len(unknown) >= 1 {
							atomic.StoreInt32(&stop, 1)
						}
					}
					vmu.Unlock()
				}
			}
		}()
	}
	// a run that does not come back: probe it in fresh processes, then report (the stuck worker
	// cannot be stopped; the process ends with the report)
	doneCh := make(chan struct{})
	go func() { wg.Wait(); close(doneCh) }()
	hangCh := make(chan *hangResult, 1)
	go func() {
		cleared := map[uint64]bool{} // runs that were slow here but end normally in a fresh process
		for {
			select {
			case <-doneCh:
				return
			case <-time.After(time.Second):
			}
			now := time.Now().UnixNano()
			for w := range slotStart {
				st := atomic.LoadInt64(&slotStart[w])
				if st != 0 && now-st > int64(hangSecs)*int64(time.Second) {
					idx := atomic.LoadUint64(&slotIdx[w])
					if cleared[idx] {
						continue
					}
					fmt.Fprintf(os.Stderr, "run %d of %s has not ended after %ds; probing it in fresh processes\n", idx, ch.ID, hangSecs)
					h := confirmHang(ch, opt, idx, nil, hangSecs)
					if !h.confirmed && strings.Contains(h.why, "ends normally") {
						// a slow run on a loaded machine, not a hang: the batch goes on (the global watchdog of check.sh still applies)
						fmt.Fprintf(os.Stderr, "run %d of %s ends normally in a fresh process: slow, not hung\n", idx, ch.ID)
						cleared[idx] = true
						continue
					}
					hangCh <- h
					return
				}
			}
		}
	}()
	var hangV *hangResult
	select {
	case <-doneCh:
	case h := <-hangCh:
		atomic.StoreInt32(&stop, 1)
		if !h.confirmed {
			fmt.Fprintf(os.Stderr, "INFRASTRUCTURE ERROR: run %d of %s stalled for %ds in the batch but %s\n", h.idx, ch.ID, hangSecs, h.why)
			return 2
		}
		hangV = h
	}
	if e := infraErr.Load(); e != nil {
		fmt.Fprintf(os.Stderr, "INFRASTRUCTURE ERROR: %v\n", e)
		return 2
	}

	// determinism resample: re-execute sampled runs and compare trace hashes
	detOK := true
	detN := 0
	if len(unknown) == 0 && hangV == nil {
		var idxs []uint64
		for i := range a.hashes {
			idxs = append(idxs, i)
		}
		sort.Slice(idxs, func(x, y int) bool { return idxs[x] < idxs[y] })
		if len(idxs) > 16 {
			idxs = idxs[:16]
		}
		for _, i := range idxs {
			t := newRunTape(ch, opt.Tier, opt.Seed, i)
			out, infra := runOnce(ch, &Ctx{T: t, Tier: opt.Tier, RunIndex: i, Avoid: avoid})
			if infra != nil {
				fmt.Fprintf(os.Stderr, "INFRASTRUCTURE ERROR: %v\n", infra)
				return 2
			}
			detN++
			if out.TraceHash != a.hashes[i] {
				detOK = false
				fmt.Fprintf(os.Stderr, "NONDETERMINISM: run %d of %s trace hash %x != %x\n", i, ch.ID, out.TraceHash, a.hashes[i])
			}
		}
		if !detOK {
			return 2
		}
	}

	// phase run outside this process (race detector children)
	if len(unknown) == 0 && hangV == nil && ch.After != nil && !ch.AfterFirst {
		var err error
		ext, err = ch.After(opt, extCov)
		if err != nil {
			fmt.Fprintf(os.Stderr, "INFRASTRUCTURE ERROR: %v\n", err)
			return 2
		}
	}

	// known findings lines
	var keys []string
	for k := range knownSeen {
		keys = append(keys, k)
	}
	sort.Strings(keys)
	for _, k := range keys {
		f := knownWhat[k]
		fmt.Printf("KNOWN-FINDING: property=%s %s [class=%s, seen in %d runs]\n", ch.ID, f.What, f.Class, knownSeen[k])
	}

	exit := 0
	var replayPaths []string
	if hangV != nil {
		rf := &ReplayFile{Property: ch.ID, Seed: opt.Seed, RunIndex: hangV.idx, Tier: opt.Tier, Class: "hang", HangSecs: hangSecs,
			Message: fmt.Sprintf("run %d did not end within %d s, in the batch and in two fresh processes; the tape is what had been drawn when the last probe gave up (not minimised: every attempt costs the full limit)", hangV.idx, hangSecs),
			Tape: hangV.tape, Blocks: hangV.blocks, OrigLen: len(hangV.tape), Avoid: avoidList(avoid)}
		if !opt.NoShrink && len(hangV.tape) > 0 {
			// minimise with a short limit per attempt (ordinary runs take milliseconds), then confirm
			// the result once more under the full limit
			s := &shrinker{ch: ch, tier: opt.Tier, avoid: avoid, maxExec: 400, deadline: time.Now().Add(150 * time.Second), best: hangV.tape, bestBlocks: hangV.blocks, hangSecs: 3}
			s.run()
			if len(s.best) < len(hangV.tape) {
				if _, _, hung := probeTape(ch, opt.Tier, s.best, avoidList(avoid), hangSecs); hung {
					rf.Tape, rf.Blocks, rf.Shrunk = s.best, s.bestBlocks, true
					rf.Message = fmt.Sprintf("run %d did not end within %d s, in the batch and in two fresh processes; the tape was minimised from %d to %d draws with a %d s limit per attempt and confirmed under the full limit", hangV.idx, hangSecs, len(hangV.tape), len(s.best), s.hangSecs)
				}
			}
		}
		dir := filepath.Join(opt.OutDir, "replays", ch.ID)
		os.MkdirAll(dir, 0755)
		p := filepath.Join(dir, fmt.Sprintf("%d-%d-hang.json", opt.Seed, hangV.idx))
		b, _ := json.MarshalIndent(rf, "", " ")
		if err := os.WriteFile(p, b, 0644); err != nil {
			fmt.Fprintf(os.Stderr, "cannot write replay: %v\n", err)
			return 2
		}
		if !ch.HangIsViolation {
			fmt.Fprintf(os.Stderr, "INFRASTRUCTURE ERROR: run %d of %s does not terminate (confirmed in fresh processes); %s does not speak about termination, so this is not reported as its violation. replay=%s\n", hangV.idx, ch.ID, ch.ID, p)
			return 2
		}
		fmt.Printf("violation class=hang run=%d: %s\n", hangV.idx, rf.Message)
		fmt.Printf("VIOLATION property=%s replay=%s\n", ch.ID, p)
		replayPaths = append(replayPaths, p)
		exit = 1
		unknown = append(unknown, vio{idx: hangV.idx})
	} else if len(unknown) > 0 {
		sort.Slice(unknown, func(i, j int) bool { return unknown[i].idx < unknown[j].idx })
		v := unknown[0]
		rf := &ReplayFile{Property: ch.ID, Seed: opt.Seed, RunIndex: v.idx, Tier: opt.Tier, Class: v.out.V.Class,
			Message: v.out.V.Msg, Step: v.out.V.Step, Attrs: v.out.V.Attrs, Tape: v.vals, Blocks: v.blocks, OrigLen: len(v.vals), Avoid: avoidList(avoid)}
		if !opt.NoShrink {
			s := &shrinker{ch: ch, tier: opt.Tier, class: v.out.V.Sig(), avoid: avoid, maxExec: 3000, deadline: time.Now().Add(60 * time.Second), best: v.vals, bestBlocks: v.blocks}
			s.run()
			rf.Tape = s.best
			rf.Blocks = s.bestBlocks
			rf.Shrunk = true
		}
		// final execution of the minimised tape for message, scenario and trace hash
		v0sig := v.out.V.Sig()
		t := tape.NewReplay(rf.Tape)
		out, infra := runOnce(ch, &Ctx{T: t, Tier: opt.Tier, WantScenario: true, Avoid: avoid})
		if infra == nil && out != nil && out.V != nil {
			for _, v := range out.Also {
				if out.V.Sig() != v0sig && v.Sig() == v0sig {
					out.V = v
				}
			}
		}
		if infra == nil && out != nil && out.V != nil && out.V.Class == rf.Class {
			rf.Message = out.V.Msg
			rf.Step = out.V.Step
			rf.Attrs = out.V.Attrs
			rf.Scenario = out.Scenario
			rf.TraceHash = fmt.Sprintf("%016x", out.TraceHash)
			rf.Blocks = t.Blocks()
		} else {
			// should not happen: fall back to the original tape
			rf.Tape = v.vals
			rf.Shrunk = false
			t := tape.NewReplay(rf.Tape)
			out, _ := runOnce(ch, &Ctx{T: t, Tier: opt.Tier, WantScenario: true, Avoid: avoid})
			if out != nil {
				rf.Scenario = out.Scenario
				rf.TraceHash = fmt.Sprintf("%016x", out.TraceHash)
			}
		}
		dir := filepath.Join(opt.OutDir, "replays", ch.ID)
		os.MkdirAll(dir, 0755)
		cls := strings.Map(func(r rune) rune {
			if (r >= 'a' && r <= 'z') || (r >= 'A' && r <= 'Z') || (r >= '0' && r <= '9') || r == '-' || r == '_' || r == '.' {
				return r
			}
			return '_'
		}, rf.Class)
		p := filepath.Join(dir, fmt.Sprintf("%d-%d-%s.json", opt.Seed, v.idx, cls))
		b, _ := json.MarshalIndent(rf, "", " ")
		if err := os.WriteFile(p, b, 0644); err != nil {
			fmt.Fprintf(os.Stderr, "cannot write replay: %v\n", err)
			return 2
		}
		fmt.Printf("violation class=%s step=%d: %s\n", rf.Class, rf.Step, rf.Message)
		fmt.Printf("VIOLATION property=%s replay=%s\n", ch.ID, p)
		replayPaths = append(replayPaths, p)
		exit = 1
	}

	if exit == 0 && len(ext) > 0 {
		e := ext[0]
		t := newRunTape(ch, opt.Tier, opt.Seed, e.RunIndex)
		out, _ := runOnce(ch, &Ctx{T: t, Tier: opt.Tier, RunIndex: e.RunIndex, WantScenario: true, Avoid: avoid})
		rf := &ReplayFile{Property: ch.ID, Seed: opt.Seed, RunIndex: e.RunIndex, Tier: opt.Tier, Class: e.Class, Message: e.Msg, Tape: t.Used(), Blocks: t.Blocks(), OrigLen: t.Pos(), Avoid: avoidList(avoid)}
		if out != nil {
			rf.Scenario = out.Scenario
			rf.TraceHash = fmt.Sprintf("%016x", out.TraceHash)
		}
		dir := filepath.Join(opt.OutDir, "replays", ch.ID)
		os.MkdirAll(dir, 0755)
		p := filepath.Join(dir, fmt.Sprintf("%d-%d-%s.json", opt.Seed, e.RunIndex, e.Class))
		b, _ := json.MarshalIndent(rf, "", " ")
		if err := os.WriteFile(p, b, 0644); err != nil {
			fmt.Fprintf(os.Stderr, "cannot write replay: %v\n", err)
			return 2
		}
		fmt.Printf("violation class=%s run=%d: %s\n", e.Class, e.RunIndex, e.Msg)
		fmt.Printf("VIOLATION property=%s replay=%s\n", ch.ID, p)
		replayPaths = append(replayPaths, p)
		exit = 1
		unknown = append(unknown, vio{idx: e.RunIndex})
	}

	// evidence
	wall := time.Since(start).Seconds()
	cov := map[string]interface{}{
		"evaluations":         a.evals,
		"distinct_nontrivial": len(a.nontriv),
		"rule":                ch.Rule,
		"samples":             a.samples,
		"distinct_states":     len(a.states),
		"faults_fired":        a.faults,
		"probes":              a.probes,
		"runs_planned":        n,
		"stopped_early":       stoppedEarly,
		"runs_per_hour":       int(float64(a.evals) / wall * 3600),
		"components_real":     ch.Real,
		"components_stub":     ch.Stub,
		"known_findings_seen": knownSeen,
		"determinism_resample_runs": detN,
		"determinism_resample_ok":   detOK,
		"workers":             workers,
		"replays":             replayPaths,
	}
	for k, v := range a.counts {
		cov[k] = v
	}
	for k, v := range extCov {
		cov[k] = v
	}
	if len(a.samples) == 0 {
		cov["samples"] = []interface{}{"(no sample recorded)"}
	}
	if ch.Post != nil {
		ch.Post(cov)
	}
	ev := map[string]interface{}{
		"property_id": ch.ID,
		"tier":        opt.Tier,
		"seed":        opt.Seed,
		"level":       ch.Level,
		"coverage":    cov,
		"assumptions": ch.Assumptions,
		"wall_s":      wall,
		"violations":  len(unknown),
	}
	os.MkdirAll(filepath.Join(opt.OutDir, "evidence"), 0755)
	b, _ := json.MarshalIndent(ev, "", " ")
	if err := os.WriteFile(filepath.Join(opt.OutDir, "evidence", ch.ID+".json"), b, 0644); err != nil {
		fmt.Fprintf(os.Stderr, "cannot write evidence: %v\n", err)
		return 2
	}
	fmt.Printf("done %s: runs=%d distinct_nontrivial=%d states=%d wall=%.1fs exit=%d\n", ch.ID, a.evals, len(a.nontriv), len(a.states), wall, exit)
	return exit
}

// Replay re-executes a replay file. Exit 1 + VIOLATION line if it reproduces.
func Replay(path string, verbose bool) int {
	b, err := os.ReadFile(path)
	if err != nil {
		fmt.Fprintf(os.Stderr, "%v\n", err)
		return 2
	}
	var rf ReplayFile
	if err := json.Unmarshal(b, &rf); err != nil {
		fmt.Fprintf(os.Stderr, "%v\n", err)
		return 2
	}
	ch := Registry[rf.Property]
	if ch == nil {
		fmt.Fprintf(os.Stderr, "unknown property %s\n", rf.Property)
		return 2
	}
	if rf.Class == "data-race" && !RaceBuild {
		// replay under the race detector
		bin := filepath.Join(verifDir(), "bin", "visim-race")
		if b := os.Getenv("VISIM_BIN"); b != "" {
			bin = filepath.Join(b, "visim-race")
		}
		cmd := exec.Command(bin, "replay", path)
		cmd.Env = append(os.Environ(), "GORACE=halt_on_error=1 exitcode=66")
		outb, _ := cmd.CombinedOutput()
		code := cmd.ProcessState.ExitCode()
		if code == 66 {
			fmt.Printf("%s\n", firstLines(string(outb), 40))
			fmt.Printf("violation class=data-race: the race detector reports conflicting accesses between session tasks\n")
			fmt.Printf("VIOLATION property=%s replay=%s\n", rf.Property, path)
			return 1
		}
		if code == 0 || code == 3 {
			fmt.Printf("replay of %s did not reproduce a data race (tree changed?)\n", path)
			return 3
		}
		fmt.Fprintf(os.Stderr, "race replay failed with exit code %d:\n%s\n", code, firstLines(string(outb), 40))
		return 2
	}
	if rf.Class == "hang" {
		secs := rf.HangSecs
		if secs == 0 {
			secs = 60
		}
		h := confirmHang(ch, Options{ID: rf.Property, Tier: rf.Tier, Seed: rf.Seed}, rf.RunIndex, &rf, secs)
		if h.confirmed {
			fmt.Printf("violation class=hang: the replayed run did not end within %d s (twice, in fresh processes)\n", secs)
			fmt.Printf("VIOLATION property=%s replay=%s\n", rf.Property, path)
			return 1
		}
		fmt.Printf("replay of %s did not reproduce: %s\n", path, h.why)
		return 3
	}
	avoid := map[string]bool{}
	for _, k := range rf.Avoid {
		avoid[k] = true
	}
	t := tape.NewReplay(rf.Tape)
	out, infra := runOnce(ch, &Ctx{T: t, Tier: rf.Tier, WantScenario: true, Avoid: avoid})
	if infra != nil {
		fmt.Fprintf(os.Stderr, "INFRASTRUCTURE ERROR: %v\n", infra)
		return 2
	}
	if verbose {
		sb, _ := json.MarshalIndent(out.Scenario, "", " ")
		fmt.Printf("%s\n", sb)
	}
	if out.V == nil {
		fmt.Printf("replay of %s did not reproduce (tree changed?)\n", path)
		return 3
	}
	if rf.Class == "data-race" {
		// the race detector would have ended the process with exit code 66
		return 3
	}
	th := fmt.Sprintf("%016x", out.TraceHash)
	fmt.Printf("violation class=%s step=%d: %s\n", out.V.Class, out.V.Step, out.V.Msg)
	if len(out.V.Attrs) > 0 {
		fmt.Printf("note: attributes %v\n", out.V.Attrs)
	}
	if out.V.Class != rf.Class {
		fmt.Printf("note: class differs from recorded %s\n", rf.Class)
	}
	if th != rf.TraceHash {
		fmt.Printf("note: trace hash %s differs from recorded %s\n", th, rf.TraceHash)
	}
	fmt.Printf("VIOLATION property=%s replay=%s\n", rf.Property, path)
	return 1
}

// RaceBuild is set by the race-detector binary.
var RaceBuild = false

func firstLines(s string, n int) string {
	l := strings.Split(s, "\n")
	if len(l) > n {
		l = l[:n]
	}
	return strings.Join(l, "\n")
}

// Hashes executes runs 0..n-1 of a check and prints "<run index> <trace hash> <violation class>"
// in index order. Used by the determinism self-test, which compares the output of many
// processes at different GOMAXPROCS and worker counts.
func Hashes(id, tier string, seed uint64, n int, workers int) int {
	ch := Registry[id]
	if ch == nil {
		return 2
	}
	ff, _ := LoadFindings(filepath.Join(verifDir(), "known_findings.json"))
	avoid := map[string]bool{}
	if ff != nil {
		avoid = ff.AvoidSet(id)
	}
	if workers <= 0 {
		workers = runtime.GOMAXPROCS(0)
	}
	lines := make([]string, n)
	var next uint64
	var wg sync.WaitGroup
	var bad atomic.Value
	for w := 0; w < workers; w++ {
		wg.Add(1)
		go func() {
			defer wg.Done()
			for {
				i := atomic.AddUint64(&next, 1) - 1
				if i >= uint64(n) {
					return
				}
				t := newRunTape(ch, tier, seed, i)
				out, infra := runOnce(ch, &Ctx{T: t, Tier: tier, RunIndex: i, Avoid: avoid})
				if infra != nil {
					bad.Store(infra)
					return
				}
				cls := "-"
				if out.V != nil {
					cls = out.V.Class
				}
				// trace hash, tape length, violation class, and what the run contributes to the evidence measures
				// (abstract states, non-triviality) - those must be as repeatable as the verdict
				var sh uint64 = 1469598103934665603
				for _, st := range out.States {
					sh = (sh ^ st) * 1099511628211
				}
				lines[i] = fmt.Sprintf("%d %016x %d %s states=%016x nontrivial=%v", i, out.TraceHash, t.Pos(), cls, sh, out.Nontrivial)
			}
		}()
	}
	wg.Wait()
	if e := bad.Load(); e != nil {
		fmt.Fprintf(os.Stderr, "INFRASTRUCTURE ERROR: %v\n", e)
		return 2
	}
	for _, l := range lines {
		fmt.Println(l)
	}
	return 0
}

// ---------------------------------------------------------------------------------------
// runs that do not terminate

type hangResult struct {
	idx       uint64
	confirmed bool
	why       string
	tape      []uint64
	blocks    []tape.Block
}

// HangProbe executes one run (seeded, or from a replay file's tape) and gives up after secs
// seconds: exit code 77 and the tape drawn so far on stdout. Child-process side of confirmHang.
func HangProbe(id, tier string, seed, idx uint64, replayPath string, secs int) int {
	ch := Registry[id]
	if ch == nil {
		return 2
	}
	ff, _ := LoadFindings(filepath.Join(verifDir(), "known_findings.json"))
	avoid := map[string]bool{}
	if ff != nil {
		avoid = ff.AvoidSet(id)
	}
	t := newRunTape(ch, tier, seed, idx)
	if replayPath != "" {
		b, err := os.ReadFile(replayPath)
		if err != nil {
			return 2
		}
		var rf ReplayFile
		if json.Unmarshal(b, &rf) != nil {
			return 2
		}
		t = tape.NewReplay(rf.Tape)
		avoid = map[string]bool{}
		for _, k := range rf.Avoid {
			avoid[k] = true
		}
	}
	done := make(chan error, 1)
	go func() {
		_, infra := runOnce(ch, &Ctx{T: t, Tier: tier, RunIndex: idx, Avoid: avoid})
		done <- infra
	}()
	select {
	case infra := <-done:
		if infra != nil {
			fmt.Fprintf(os.Stderr, "INFRASTRUCTURE ERROR: %v\n", infra)
			return 2
		}
		return 0
	case <-time.After(time.Duration(secs) * time.Second):
		// the run is stuck inside the library; it does not touch the tape any more
		b, _ := json.Marshal(map[string]interface{}{"tape": t.Used(), "blocks": t.Blocks()})
		fmt.Printf("%s\n", b)
		return 77
	}
}

// confirmHang probes run idx (or the tape of replay file rf) twice in fresh processes.
func confirmHang(ch *Check, opt Options, idx uint64, rf *ReplayFile, secs int) *hangResult {
	return confirmHangN(ch, opt, idx, rf, secs, 2)
}

func confirmHangN(ch *Check, opt Options, idx uint64, rf *ReplayFile, secs int, times int) *hangResult {
	h := &hangResult{idx: idx}
	exe, err := os.Executable()
	if err != nil {
		h.why = "the executable cannot be located: " + err.Error()
		return h
	}
	rp := ""
	if rf != nil {
		f, err := os.CreateTemp("", "visim-hang-*.json")
		if err != nil {
			h.why = err.Error()
			return h
		}
		b, _ := json.Marshal(rf)
		f.Write(b)
		f.Close()
		rp = f.Name()
		defer os.Remove(rp)
	}
	for k := 0; k < times; k++ {
		cmd := exec.Command(exe, "hangprobe", ch.ID, opt.Tier, fmt.Sprint(opt.Seed), fmt.Sprint(idx), fmt.Sprint(secs), rp)
		cmd.Stderr = os.Stderr
		outb, _ := cmd.Output()
		code := -1
		if cmd.ProcessState != nil {
			code = cmd.ProcessState.ExitCode()
		}
		switch code {
		case 77:
			var m struct {
				Tape   []uint64     `json:"tape"`
				Blocks []tape.Block `json:"blocks"`
			}
			if json.Unmarshal(outb, &m) == nil {
				h.tape, h.blocks = m.Tape, m.Blocks
			}
		case 0:
			h.why = "it ends normally in a fresh process (machine overloaded?)"
			return h
		default:
			h.why = fmt.Sprintf("the probe process failed with exit code %d", code)
			return h
		}
	}
	h.confirmed = true
	return h
}

// probeTape executes a tape in a child process that gives up after secs seconds.
func probeTape(ch *Check, tier string, vals []uint64, avoid []string, secs int) (used []uint64, blocks []tape.Block, hung bool) {
	rf := &ReplayFile{Property: ch.ID, Tier: tier, Tape: vals, Avoid: avoid}
	h := confirmHangN(ch, Options{ID: ch.ID, Tier: tier}, 0, rf, secs, 1)
	return h.tape, h.blocks, h.confirmed
}
