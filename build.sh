#!/bin/bash
# Rebuilds the simulator against the current working tree of /repo.
set -eu
VERIF="$(cd "$(dirname "$0")" && pwd)"
export GOFLAGS=-mod=mod GOPROXY=off GOSUMDB=off GOTOOLCHAIN=local
mkdir -p "$VERIF/bin"
cd "$VERIF/sim"
cp /repo/go.sum "$VERIF/sim/go.sum" 2>/dev/null || true
exec 9>"$VERIF/bin/.build.lock"
flock 9
go build -o "$VERIF/bin/visim" ./cmd/visim
