#!/bin/bash
# usage: replay.sh <replay file> [-v]
set -u
VERIF="$(cd "$(dirname "$0")" && pwd)"
export VERIF_DIR="$VERIF"
export GOFLAGS=-mod=mod GOPROXY=off GOSUMDB=off GOTOOLCHAIN=local
"$VERIF/build.sh" all || exit 2
exec "$VERIF/bin/visim" replay "$@"
