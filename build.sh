#!/bin/bash
# Rebuilds the simulator against the current working tree of the repository
# (/repo, or $VISIM_REPO for scratch copies used in sensitivity tests).
# db/fs is compiled against visim/simfs through an overlay made from the current sources.
# The build tag "verif" enables the one source hook in /repo (db/postgres/verif_hook.go).
set -eu
VERIF="$(cd "$(dirname "$0")" && pwd)"
REPO="${VISIM_REPO:-/repo}"
BIN="${VISIM_BIN:-$VERIF/bin}"
export GOFLAGS=-mod=mod GOPROXY=off GOSUMDB=off GOTOOLCHAIN=local
mkdir -p "$BIN"
exec 9>"$BIN/.build.lock"
flock 9
cd "$VERIF/sim"
SCR="$(mktemp -d "${TMPDIR:-/tmp}/visim-ov.XXXXXX")"
trap 'rm -rf "$SCR"' EXIT
MODFLAG=""
if [ "$REPO" = "/repo" ]; then
  cp /repo/go.sum "$VERIF/sim/go.sum"
else
  sed "s#=> /repo#=> $REPO#" "$VERIF/sim/go.mod" > "$SCR/alt.mod"
  cp "$REPO/go.sum" "$SCR/alt.sum"
  MODFLAG="-modfile=$SCR/alt.mod"
fi
go build $MODFLAG -o "$BIN/fsrewrite" ./cmd/fsrewrite
"$BIN/fsrewrite" "$REPO/db/fs" "$SCR/fs" "$SCR/overlay.json"
go build $MODFLAG -tags verif -overlay "$SCR/overlay.json" -o "$BIN/visim" ./cmd/visim
# the repository's own disassembler executable (dev/disasm): C15 runs it on long records
(cd "$REPO" && go build -o "$BIN/vise-disasm" ./dev/disasm)
if [ "${1:-}" = "C19" ] || [ "${1:-}" = "all" ]; then
  go build $MODFLAG -tags verif -race -overlay "$SCR/overlay.json" -o "$BIN/visim-race" ./cmd/visimrace
fi
