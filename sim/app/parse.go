package app

import (
	"fmt"
	"strings"
)

// Page is an output parsed back into its parts without knowing how the renderer works.
// Layout produced by the generated templates:
//
//	[error prefix \n] @node[~lang]|static sym=[value] S<<row\nrow>>$ [\n menu lines]
type Page struct {
	OK     bool
	Prefix string // error prefix (without the separating newline)
	Node   string
	Lang   string
	Vals   map[string]string
	Sink   *string // sink content as shown
	Tail   string  // everything after the closing '$'
	Menu   []string
	Body   string
}

func ParsePage(out string) Page {
	var p Page
	end := strings.LastIndex(out, "$")
	if end < 0 {
		return p
	}
	start := strings.LastIndex(out[:end], "@")
	if start < 0 {
		return p
	}
	bar := strings.Index(out[start:end], "|")
	if bar < 0 {
		return p
	}
	name := out[start+1 : start+bar]
	if i := strings.Index(name, "~"); i >= 0 {
		p.Lang = name[i+1:]
		name = name[:i]
	}
	p.Node = name
	if start > 0 {
		p.Prefix = strings.TrimSuffix(out[:start], "\n")
	}
	body := out[start+bar+1 : end]
	p.Body = body
	p.Vals = map[string]string{}
	rest := body
	for {
		i := strings.Index(rest, "=[")
		if i < 0 {
			break
		}
		j := strings.LastIndex(rest[:i], " ")
		sym := rest[j+1 : i]
		k := strings.Index(rest[i:], "]")
		if k < 0 {
			break
		}
		p.Vals[sym] = rest[i+2 : i+k]
		rest = rest[i+k+1:]
	}
	if i := strings.Index(body, "S<<"); i >= 0 {
		if k := strings.LastIndex(body, ">>"); k >= i+3 {
			s := body[i+3 : k]
			p.Sink = &s
		}
	}
	p.Tail = out[end+1:]
	if strings.HasPrefix(p.Tail, "\n") {
		p.Menu = strings.Split(p.Tail[1:], "\n")
	}
	p.OK = true
	return p
}

// Validate checks the well-formedness conditions the generator must establish:
// every named target exists, no node moves to itself by name, and the graph of moves
// that run without passing a HALT (entry graph) is acyclic under a conservative
// resolution of relative targets.
func (a *App) Validate() error {
	isRel := func(s string) bool { return s == "_" || s == "^" || s == "." || s == ">" || s == "<" }
	parents := map[string]map[string]bool{}
	addParent := func(child, parent string) {
		if parents[child] == nil {
			parents[child] = map[string]bool{}
		}
		parents[child][parent] = true
	}
	for _, n := range a.Nodes {
		for _, in := range n.Code {
			if in.Op == MOVE || in.Op == INCMP || in.Op == CATCH {
				if !isRel(in.A) {
					if a.idx[in.A] == nil {
						return fmt.Errorf("node %s: target %s does not exist", n.Name, in.A)
					}
					if in.A == n.Name {
						return fmt.Errorf("node %s moves to itself", n.Name)
					}
					addParent(in.A, n.Name)
				}
			}
		}
		addParent("_catch", n.Name)
	}
	// entry graph edges from instructions before the first HALT
	edges := map[string][]string{}
	for _, n := range a.Nodes {
		lim := len(n.Code)
		if n.HaltAt >= 0 {
			lim = n.HaltAt
		}
		for _, in := range n.Code[:lim] {
			if in.Op != MOVE && in.Op != CATCH && in.Op != INCMP {
				continue
			}
			switch in.A {
			case "_":
				for p := range parents[n.Name] {
					edges[n.Name] = append(edges[n.Name], p)
				}
			case "^":
				if n.Name == a.Root {
					return fmt.Errorf("node %s: pre-HALT '^' in root", n.Name)
				}
				edges[n.Name] = append(edges[n.Name], a.Root)
			case ".", ">", "<":
				return fmt.Errorf("node %s: pre-HALT lateral/same move", n.Name)
			default:
				edges[n.Name] = append(edges[n.Name], in.A)
			}
		}
	}
	color := map[string]int{}
	var visit func(string) error
	visit = func(u string) error {
		color[u] = 1
		for _, v := range edges[u] {
			if color[v] == 1 {
				return fmt.Errorf("move cycle without HALT through %s -> %s", u, v)
			}
			if color[v] == 0 {
				if err := visit(v); err != nil {
					return err
				}
			}
		}
		color[u] = 2
		return nil
	}
	for _, n := range a.Nodes {
		if color[n.Name] == 0 {
			if err := visit(n.Name); err != nil {
				return err
			}
		}
	}
	return nil
}
