// Package app holds the intermediate representation of generated vise applications,
// an independent bytecode encoder/decoder (refcodec), the generator and the output parser.
// It imports no vise package.
package app

import (
	"fmt"
	"sort"
	"strings"
)

type Op uint16

const (
	NOOP   Op = 0
	CATCH  Op = 1
	CROAK  Op = 2
	LOAD   Op = 3
	RELOAD Op = 4
	MAP    Op = 5
	MOVE   Op = 6
	HALT   Op = 7
	INCMP  Op = 8
	MSINK  Op = 9
	MOUT   Op = 10
	MNEXT  Op = 11
	MPREV  Op = 12
)

var opNames = map[Op]string{CATCH: "CATCH", CROAK: "CROAK", LOAD: "LOAD", RELOAD: "RELOAD", MAP: "MAP", MOVE: "MOVE", HALT: "HALT", INCMP: "INCMP", MSINK: "MSINK", MOUT: "MOUT", MNEXT: "MNEXT", MPREV: "MPREV", NOOP: "NOOP"}

// Inst is one instruction.
//
//	LOAD A=sym N=size | RELOAD A=sym | MAP A=sym | MOVE A=target | INCMP A=target B=selector
//	CATCH A=target N=signal M=mode | CROAK N=signal M=mode | MOUT/MNEXT/MPREV A=label B=selector | MSINK | HALT
type Inst struct {
	Op Op
	A  string
	B  string
	N  uint32
	M  bool
}

func (i Inst) String() string {
	m := 0
	if i.M {
		m = 1
	}
	switch i.Op {
	case LOAD:
		return fmt.Sprintf("LOAD %s %d", i.A, i.N)
	case RELOAD, MAP, MOVE:
		return fmt.Sprintf("%s %s", opNames[i.Op], i.A)
	case INCMP, MOUT, MNEXT, MPREV:
		return fmt.Sprintf("%s %s %s", opNames[i.Op], i.A, i.B)
	case CATCH:
		return fmt.Sprintf("CATCH %s %d %d", i.A, i.N, m)
	case CROAK:
		return fmt.Sprintf("CROAK %d %d", i.N, m)
	}
	return opNames[i.Op]
}

// encodeInt encodes an integer as vise does: length byte then big-endian bytes, minimal width,
// at least one byte.
func encodeInt(n uint32) []byte {
	switch {
	case n < 1<<8:
		return []byte{1, byte(n)}
	case n < 1<<16:
		return []byte{2, byte(n >> 8), byte(n)}
	case n < 1<<24:
		return []byte{3, byte(n >> 16), byte(n >> 8), byte(n)}
	}
	return []byte{4, byte(n >> 24), byte(n >> 16), byte(n >> 8), byte(n)}
}

func encodeStr(s string) []byte {
	if len(s) == 0 || len(s) > 255 {
		panic(fmt.Sprintf("refcodec: string argument of length %d", len(s)))
	}
	return append([]byte{byte(len(s))}, []byte(s)...)
}

// Encode appends the bytecode of one instruction (format from doc/texinfo/instructions.texi
// and the header comments of vm/vm.go: 2-byte big-endian opcode, length-prefixed strings,
// length-prefixed big-endian integers, one byte match mode).
func (i Inst) Encode(b []byte) []byte {
	b = append(b, byte(i.Op>>8), byte(i.Op))
	mode := byte(0)
	if i.M {
		mode = 1
	}
	switch i.Op {
	case LOAD:
		b = append(b, encodeStr(i.A)...)
		b = append(b, encodeInt(i.N)...)
	case RELOAD, MAP, MOVE:
		b = append(b, encodeStr(i.A)...)
	case INCMP, MOUT, MNEXT, MPREV:
		b = append(b, encodeStr(i.A)...)
		b = append(b, encodeStr(i.B)...)
	case CATCH:
		b = append(b, encodeStr(i.A)...)
		b = append(b, encodeInt(i.N)...)
		b = append(b, mode)
	case CROAK:
		b = append(b, encodeInt(i.N)...)
		b = append(b, mode)
	case HALT, MSINK:
	default:
		panic("refcodec: unknown op")
	}
	return b
}

func EncodeAll(code []Inst) []byte {
	b := []byte{}
	for _, i := range code {
		b = i.Encode(b)
	}
	return b
}

// Node of an application.
type Node struct {
	Name string
	Kind int
	Code []Inst
	// Tpl maps language code ("" = default entry) to template text.
	Tpl map[string]string
	// Pre is the number of instructions before (and including) the HALT; len(Code) if no HALT.
	HaltAt int // index of HALT in Code, -1 if none
	// NegProbe names a symbol the template references although the node never maps it.
	NegProbe string
}

const (
	KMenu = iota
	KInput
	KAction
	KEndGraceful
	KEndAbnormal
	KCatch
)

// ExtBehav is one scripted behaviour of an external function.
type ExtBehav struct {
	Err    bool     `json:"err,omitempty"`
	Status int      `json:"status,omitempty"`
	Len    int      `json:"len"`            // content length for non-sink content (-1: natural tag)
	Rows   []int    `json:"rows,omitempty"` // sink content: row lengths
	Sink   bool     `json:"sink,omitempty"`
	Set    []uint32 `json:"set,omitempty"`
	Reset  []uint32 `json:"reset,omitempty"`
	Lang   string   `json:"lang,omitempty"` // content is this string (language switch attempt)
	Uni    bool     `json:"uni,omitempty"`  // pad with multi-byte UTF-8 characters (lengths stay byte lengths)
	Bad    bool     `json:"bad,omitempty"`  // pad with bytes that are not valid UTF-8 (results are byte strings as far as the VM is concerned)
}

// ExtSym is an external symbol with its declared size and script (cycled by call index).
type ExtSym struct {
	Name   string
	Size   uint32
	Script []ExtBehav
	// Static, when non-nil, makes this a static-load symbol: no code runs, the content is the
	// stored entry for the language in force (key "" = default entry).
	Static map[string]string
}

// StaticContent resolves a static symbol for a language: translation, else default entry.
func (e *ExtSym) StaticContent(lang string) (string, bool) {
	if lang != "" {
		if v, ok := e.Static[lang]; ok {
			return v, true
		}
	}
	v, ok := e.Static[""]
	return v, ok
}

type App struct {
	Root   string
	Nodes  []*Node
	Ext    []*ExtSym
	Labels map[string]map[string]string // label -> lang ("" default) -> text; absent label: resolves to itself
	Langs  []string                     // languages for which some translation exists
	idx    map[string]*Node
	ext    map[string]*ExtSym
	code   map[string][]byte
}

func (a *App) Index() {
	a.idx = map[string]*Node{}
	a.code = map[string][]byte{}
	for _, n := range a.Nodes {
		a.idx[n.Name] = n
		a.code[n.Name] = EncodeAll(n.Code)
		n.HaltAt = -1
		for i, in := range n.Code {
			if in.Op == HALT {
				n.HaltAt = i
				break
			}
		}
	}
	a.ext = map[string]*ExtSym{}
	for _, e := range a.Ext {
		a.ext[e.Name] = e
	}
}

func (a *App) Node(name string) *Node   { return a.idx[name] }
func (a *App) ExtSym(name string) *ExtSym { return a.ext[name] }

// Bytecode returns the encoded program of a node (shared, must not be modified).
func (a *App) Bytecode(name string) ([]byte, bool) {
	b, ok := a.code[name]
	return b, ok
}

// WithBytecode returns a shallow copy of the application in which one node's bytecode
// record is replaced (damage injection); the original is not touched.
func (a *App) WithBytecode(name string, b []byte) *App {
	c := *a
	c.code = map[string][]byte{}
	for k, v := range a.code {
		c.code[k] = v
	}
	c.code[name] = b
	return &c
}

// SetBytecode overrides the bytecode table entry (used for canary capacity in C19 and damage in C15).
func (a *App) SetBytecode(name string, b []byte) { a.code[name] = b }

// Selectors returns the selectors of the INCMP instructions after the HALT of a node.
func (n *Node) Selectors() []string {
	var s []string
	for i, in := range n.Code {
		if in.Op == INCMP && (n.HaltAt < 0 || i > n.HaltAt) {
			s = append(s, in.B)
		}
	}
	return s
}

// AllSelectors is the selector alphabet of the application (sorted, unique, without '*').
func (a *App) AllSelectors() []string {
	m := map[string]bool{}
	for _, n := range a.Nodes {
		for _, in := range n.Code {
			switch in.Op {
			case INCMP, MNEXT, MPREV, MOUT:
				if in.B != "*" {
					m[in.B] = true
				}
			}
		}
	}
	var l []string
	for k := range m {
		l = append(l, k)
	}
	sort.Strings(l)
	return l
}

// Text renders the application as vise assembly plus templates (for replay files).
func (a *App) Text() map[string]interface{} {
	nodes := map[string]interface{}{}
	for _, n := range a.Nodes {
		var lines []string
		for _, in := range n.Code {
			lines = append(lines, in.String())
		}
		nodes[n.Name] = map[string]interface{}{"vis": strings.Join(lines, "; "), "template": n.Tpl}
	}
	ext := map[string]interface{}{}
	for _, e := range a.Ext {
		ext[e.Name] = map[string]interface{}{"size": e.Size, "script": e.Script, "static": e.Static}
	}
	return map[string]interface{}{"root": a.Root, "nodes": nodes, "ext": ext, "labels": a.Labels}
}

// Content computes the content an external symbol returns for behaviour b on call k.
// It carries the call index and a digest of the input so that what ran shows in what is shown.
func Content(sym string, k int, inputDigest byte, b *ExtBehav) string {
	if b.Lang != "" {
		return b.Lang
	}
	if b.Sink || b.Rows != nil {
		rows := make([]string, len(b.Rows))
		for i, l := range b.Rows {
			rows[i] = padToU(fmt.Sprintf("r%d.%d.%s", i, k, sym), l, b.Uni)
		}
		return strings.Join(rows, "\n")
	}
	tag := fmt.Sprintf("%s.%d.%02x", sym, k, inputDigest)
	if b.Len < 0 {
		return tag
	}
	if b.Bad && b.Len > len(tag) {
		return tag + strings.Repeat("\xff", b.Len-len(tag))
	}
	return padToU(tag, b.Len, b.Uni)
}

// padToU is padTo with optional multi-byte padding; the result is exactly l BYTES long.
func padToU(tag string, l int, uni bool) string {
	if !uni || l <= len(tag)+1 {
		return padTo(tag, l)
	}
	var sb strings.Builder
	sb.WriteString(tag)
	rest := l - len(tag)
	if rest%2 == 1 {
		sb.WriteByte('x')
		rest--
	}
	for ; rest > 0; rest -= 2 {
		sb.WriteString("ø")
	}
	return sb.String()
}

func padTo(tag string, l int) string {
	if l <= len(tag) {
		return tag[:l]
	}
	var sb strings.Builder
	sb.Grow(l)
	sb.WriteString(tag)
	for i := len(tag); i < l; i++ {
		sb.WriteByte("abcdefghijklmnopqrstuvwxyz"[i%26])
	}
	return sb.String()
}

// Digest of an input (1 byte).
func Digest(in []byte) byte {
	var h uint32 = 2166136261
	for _, c := range in {
		h = (h ^ uint32(c)) * 16777619
	}
	return byte(h ^ (h >> 8) ^ (h >> 16) ^ (h >> 24))
}
