package app

import (
	"fmt"
	"strings"

	"visim/tape"
)

// Profile tunes the application generator. The zero value generates tiny static apps.
type Profile struct {
	MaxNodes       int    // nodes besides _catch (>=1)
	MaxExt         int    // external symbols
	FlagCount      uint32 // user flags available (indices 8..8+FlagCount-1)
	Sinks          bool   // size-0 symbols
	MSink          bool   // MSINK menus
	Menus          bool   // MOUT entries
	Browse         bool   // MNEXT/MPREV and < > targets
	Catch          bool   // CATCH instructions
	Croak          bool   // CROAK instructions
	ExtFlags       bool   // external results set/reset user flags
	ExtReserved    bool   // flag lists include reserved indices 0..5
	ExtTerminate   bool   // flag lists may include TERMINATE (6)
	ExtLang        bool   // external results may switch language
	ExtErrPct      int    // chance (percent) that a behaviour is an error
	OversizePct    int    // chance (percent) that a sized result exceeds its limit
	BigValues      bool   // results around and above 64 KiB
	EmptyPct       int    // chance (percent) of an empty result
	DupSelectors   bool   // duplicate selectors within one node (C03)
	WildAnywhere   bool   // wildcard INCMP not necessarily last (C03)
	RelTargets     bool   // relative targets _ ^ . in INCMP/MOVE
	UpAtRoot       bool   // allow '_' targets in the root node (failing move)
	EndNodes       bool   // graceful and abnormal end nodes
	Translations   bool   // translated templates/labels
	MultiRowTpl    bool   // newlines in static template text
	MaxRows        int    // sink rows
	EmptyRows      bool   // empty and trailing-empty sink rows
	CatchShape     int    // -1 random, else fixed shape of _catch
	NoCatchNode    bool   // do not define _catch (never used for well-formed apps)
	SingleRoute    bool   // after a HALT exactly one candidate: one "INCMP t *" or one MOVE t
	NegMapProbe    bool   // templates may reference a symbol mapped only before the last move (C05)
	RelWeight      int    // weight of relative targets against 6 for named ones (default 3)
	EndWeight      int    // weight of each kind of end node against 6 for menu nodes (default 1)
	CatchLoad      bool   // the catch node may LOAD a symbol
	BadUTF8        bool   // some results carry bytes that are not valid UTF-8
	Refresh        bool   // nodes that render twice (… HALT; RELOAD …; HALT; INCMP …)
	SizeFlip       bool   // a sink symbol is loaded under a size limit in some nodes
	EndAfterInput  bool   // end nodes of the shape HALT; INCMP t 1; HALT
	FallMove       bool   // menu nodes that end in a MOVE behind their INCMP lines
	NoTplEnd       bool   // now and then a graceful end node has no template at all: the session ends with the bare exit value
	LangLikeNames  bool   // now and then one node is named like a translation: its name ends in "_<code>" of a language the application has translations for
	LongMenus      bool   // now and then a node has 14-30 more INCMP lines in front of its own (more than 128 bytes of code behind its HALT)
	ReloadAfterMap bool   // now and then a mapped symbol is RELOADed behind its MAP, before the page is shown
	BrowseSwap     bool   // now and then MPREV is written before MNEXT
	PoolFlags      bool   // with many flags: CATCH/CROAK and external code draw from a small pool of indices (boundaries favoured), so that they meet
	flagPool       []uint32
	HugePages      bool // accepted values of about 65535 bytes (pages just over 64 KiB)
	PreludeIncmp   bool // INCMP lines before a node's HALT
	ManySyms       bool // up to 28 external symbols, nodes that load up to 20 of them
	Unicode        bool // multi-byte UTF-8 in labels, translations, static template text and padded values
	StaticSyms     bool // some external symbols are static-load symbols with per-language entries
	InputWeight    int  // weight of input-consuming nodes (HALT .. MOVE) against 6 for menu nodes (default 2)
}

var langPool = []string{"nor", "swa", "fra", "deu"}

func nodeName(i int) string {
	if i == 0 {
		return "root"
	}
	return fmt.Sprintf("n%c%c", 'a'+byte((i-1)/26), 'a'+byte((i-1)%26))
}

type genNode struct {
	kind int
	back bool // action node with relative target (only targeted after a HALT)
	relT string
}

// Generate draws an application from the tape.
func Generate(t *tape.Tape, p Profile) *App {
	if p.PoolFlags && p.FlagCount > 16 {
		top := 8 + p.FlagCount - 1
		cands := []uint32{8, 15, 16, 255, 256, 263, 264, 520, 65535, 65536, 65543, 65544, 65800, top, top - 1, top - 7, top - 8}
		for len(p.flagPool) < 4 {
			f := 8 + uint32(t.Int(int(p.FlagCount)))
			if t.Chance(2, 3) {
				f = cands[t.Int(len(cands))]
			}
			if f < 8 || f > top {
				f = top
			}
			p.flagPool = append(p.flagPool, f)
		}
	}
	a := &App{Root: "root", Labels: map[string]map[string]string{}}
	t.Begin("app")
	defer t.End()
	if p.MaxNodes < 1 {
		p.MaxNodes = 1
	}
	n := t.Range(1, p.MaxNodes)
	if p.MaxRows == 0 {
		p.MaxRows = 8
	}

	// languages
	if p.Translations {
		nl := t.Range(0, 2)
		for i := 0; i < nl; i++ {
			a.Langs = append(a.Langs, langPool[i])
		}
	}

	// external symbols
	ne := 0
	if p.MaxExt > 0 {
		ne = t.Range(0, p.MaxExt)
		if p.ManySyms {
			ne = t.Range(17, 28)
		}
	}
	for i := 0; i < ne; i++ {
		t.Begin("ext")
		e := &ExtSym{Name: fmt.Sprintf("s%c%c", 'a'+byte(i/26), 'a'+byte(i%26))}
		sinkW := 0
		if p.Sinks {
			sinkW = 3
		}
		bigW := 0
		if p.BigValues {
			bigW = 1
		}
		switch t.Weighted(4, sinkW, 2, 1, bigW) {
		case 0:
			e.Size = uint32(t.Range(8, 40))
		case 1:
			e.Size = 0
		case 2:
			e.Size = uint32(t.Range(1, 7))
		case 3:
			e.Size = uint32([]int{255, 256, 100, 65535}[t.Int(4)])
		case 4:
			e.Size = uint32([]int{65535, 65534, 10, 300}[t.Int(4)])
		}
		nb := t.Range(1, 3)
		for j := 0; j < nb; j++ {
			e.Script = append(e.Script, genBehav(t, p, e))
		}
		if p.StaticSyms && e.Size >= 8 && t.Chance(1, 3) {
			e.Static = map[string]string{"": "st " + e.Name}
			for _, lg := range a.Langs {
				if t.Chance(2, 3) {
					e.Static[lg] = lg + " " + e.Name
				}
			}
			for k, v := range e.Static {
				if uint32(len(v)) > e.Size {
					e.Static[k] = v[:e.Size]
				}
			}
		}
		a.Ext = append(a.Ext, e)
		t.End()
	}

	// node kinds
	gn := make([]genNode, n)
	for i := 0; i < n; i++ {
		t.Begin("kind")
		endW := 0
		if p.EndNodes {
			endW = 1
			if p.EndWeight > 0 {
				endW = p.EndWeight
			}
		}
		inW := 2
		if p.InputWeight > 0 {
			inW = p.InputWeight
		}
		actW := 2
		if i == n-1 && !p.RelTargets {
			actW = 0 // an action node needs somewhere to go
		}
		k := t.Weighted(6, inW, actW, endW, endW)
		gn[i].kind = k
		if k == KAction {
			// forward (named higher) or back (relative)
			canFwd := i < n-1
			canBack := p.RelTargets && i > 0
			switch {
			case canFwd && canBack:
				gn[i].back = t.Chance(1, 2)
			case canBack:
				gn[i].back = true
			case canFwd:
				gn[i].back = false
			default:
				gn[i].kind = KMenu
			}
			if gn[i].back {
				gn[i].relT = []string{"_", "^"}[t.Int(2)]
			}
		}
		t.End()
	}

	// a forward action node needs a higher-rank target that is not a back-action node;
	// settle that before any code is generated (from the last node down)
	for i := n - 1; i >= 0; i-- {
		if gn[i].kind != KAction || gn[i].back {
			continue
		}
		ok := false
		for j := i + 1; j < n; j++ {
			if !(gn[j].kind == KAction && gn[j].back) {
				ok = true
			}
		}
		if !ok {
			if p.RelTargets && i > 0 {
				gn[i].back = true
				gn[i].relT = "^"
			} else {
				gn[i].kind = KMenu
			}
		}
	}

	labelN := 0
	newLabel := func() string {
		l := fmt.Sprintf("l%c%c", 'a'+byte(labelN/26), 'a'+byte(labelN%26))
		labelN++
		if p.Unicode && !p.Translations && t.Chance(1, 2) {
			a.Labels[l] = map[string]string{"": l + " øé→"}
		}
		if p.Translations {
			m := map[string]string{}
			if t.Chance(2, 3) {
				m[""] = "lbl " + l
				if p.Unicode && t.Chance(1, 2) {
					m[""] = "lbl " + l + " ø→"
				}
			}
			for _, lg := range a.Langs {
				if t.Chance(1, 2) {
					m[lg] = lg + " " + l + padToU("", t.Int(14), p.Unicode && t.Chance(1, 2))
				}
			}
			if len(m) > 0 {
				a.Labels[l] = m
			}
		}
		return l
	}

	// immediate (pre-HALT) named targets: strictly higher rank, not a back-action node
	immTargets := func(i int) []int {
		var l []int
		for j := i + 1; j < n; j++ {
			if gn[j].kind == KAction && gn[j].back {
				continue
			}
			l = append(l, j)
		}
		return l
	}
	// post-HALT named targets: any other node
	postTargets := func(i int) []int {
		var l []int
		for j := 0; j < n; j++ {
			if j != i {
				l = append(l, j)
			}
		}
		return l
	}
	userFlag := func() uint32 {
		if p.FlagCount == 0 {
			return 8 // never used: callers check FlagCount
		}
		return p.pickFlag(t)
	}
	postTarget := func(i int, browse bool) string {
		pt := postTargets(i)
		relW := 0
		if p.RelTargets {
			relW = 3
			if p.RelWeight > 0 {
				relW = p.RelWeight
			}
		}
		brW := 0
		if browse {
			brW = 2
		}
		namedW := 6
		if len(pt) == 0 {
			namedW = 0
			if relW == 0 && brW == 0 {
				relW = 1
			}
		}
		switch t.Weighted(namedW, relW, brW) {
		case 0:
			return nodeName(pt[t.Int(len(pt))])
		case 1:
			// '_' at the root is a failing move
			opts := []string{"^", "."}
			if i > 0 || p.UpAtRoot {
				opts = []string{"_", "^", "."}
			}
			return opts[t.Int(len(opts))]
		default:
			return []string{">", "<"}[t.Int(2)]
		}
	}

	var lateNeg map[int]string
	for i := 0; i < n; i++ {
		t.Begin("node")
		nd := &Node{Name: nodeName(i), Kind: gn[i].kind, Tpl: map[string]string{}}
		var code []Inst
		loaded := []string{}
		mapped := []string{}
		haveSink := false
		msink := false
		browse := false
		var mouts []Inst

		// LOADs
		if len(a.Ext) > 0 {
			nl := t.Weighted(3, 4, 2, 1)
			if p.ManySyms && t.Chance(1, 2) {
				nl = t.Range(8, 20)
			}
			for j := 0; j < nl; j++ {
				e := a.Ext[t.Int(len(a.Ext))]
				dup := false
				for _, s := range loaded {
					if s == e.Name {
						dup = true
					}
				}
				if dup {
					continue
				}
				code = append(code, Inst{Op: LOAD, A: e.Name, N: e.Size})
				loaded = append(loaded, e.Name)
			}
		}
		// an INCMP line in the prelude: it is reached in the same run as the INCMP line that brought the
		// session here (through action nodes, directly) and sees the same input - which has been spent
		if p.PreludeIncmp && i > 0 && gn[i].kind != KAction {
			it := immTargets(i)
			if len(it) > 0 && t.Chance(1, 4) {
				code = append(code, Inst{Op: INCMP, A: nodeName(it[t.Int(len(it))]), B: []string{"0", "1", "2", "*"}[t.Weighted(3, 3, 2, 1)]})
			}
		}
		// flag-steered control flow in the prelude
		if p.Catch && p.FlagCount > 0 && gn[i].kind != KAction {
			it := immTargets(i)
			if len(it) > 0 && t.Chance(1, 3) {
				code = append(code, Inst{Op: CATCH, A: nodeName(it[t.Int(len(it))]), N: userFlag(), M: t.Chance(2, 3)})
			}
		}
		if p.Croak && p.FlagCount > 0 && t.Chance(1, 8) {
			code = append(code, Inst{Op: CROAK, N: userFlag(), M: true})
		}
		if gn[i].kind == KAction {
			// action node: {LOAD|RELOAD}* MOVE target
			sinkReloaded := false
			for _, s := range loaded {
				if t.Chance(1, 3) {
					if a.extByName(s).Size == 0 {
						if sinkReloaded {
							continue
						}
						sinkReloaded = true
					}
					code = append(code, Inst{Op: RELOAD, A: s})
				}
			}
			var tgt string
			if gn[i].back {
				tgt = gn[i].relT
			} else {
				it := immTargets(i)
				if len(it) == 0 {
					// cannot happen by construction of kinds unless all higher are back nodes
					tgt = "^"
					if i == 0 {
						tgt = "."
					}
					gn[i].back = true
				} else {
					tgt = nodeName(it[t.Int(len(it))])
				}
			}
			if tgt == "." || (tgt == "^" && i == 0) {
				// would loop forever: turn into a graceful end
				code = append(code, Inst{Op: HALT})
				nd.Kind = KEndGraceful
			} else {
				code = append(code, Inst{Op: MOVE, A: tgt})
			}
			nd.Code = code
			nd.Tpl[""] = makeTpl(t, p, nd.Name, "", nil, "")
			a.Nodes = append(a.Nodes, nd)
			t.End()
			continue
		}
		// choose the mapped set (at most one sink), then RELOADs (RELOAD maps its symbol,
		// so a sink may only be reloaded when it is the node's mapped sink), then MAPs
		sinkSym := ""
		for _, s := range loaded {
			e := a.extByName(s)
			if e.Size == 0 {
				if haveSink || !t.Chance(3, 4) {
					continue
				}
				haveSink = true
				sinkSym = s
			} else if !t.Chance(3, 4) {
				continue
			}
			mapped = append(mapped, s)
		}
		reloadable := func(s string) bool {
			return a.extByName(s).Size != 0 || s == sinkSym
		}
		for _, s := range loaded {
			if reloadable(s) && t.Chance(1, 6) {
				code = append(code, Inst{Op: RELOAD, A: s})
			}
		}
		for _, s := range mapped {
			code = append(code, Inst{Op: MAP, A: s})
		}
		if p.ReloadAfterMap {
			for _, s := range mapped {
				if reloadable(s) && t.Chance(1, 4) {
					code = append(code, Inst{Op: RELOAD, A: s})
				}
			}
		}
		// a CATCH after the MAPs (negative mapping probe): the target's template references a symbol
		// that only THIS node maps, so the target must fail to render when the CATCH fires
		if p.NegMapProbe && p.Catch && p.FlagCount > 0 && len(mapped) > 0 && t.Chance(1, 4) {
			it := immTargets(i)
			if len(it) > 0 {
				j := it[t.Int(len(it))]
				code = append(code, Inst{Op: CATCH, A: nodeName(j), N: userFlag(), M: t.Chance(1, 2)})
				if lateNeg == nil {
					lateNeg = map[int]string{}
				}
				if _, ok := lateNeg[j]; !ok {
					lateNeg[j] = mapped[t.Int(len(mapped))]
				}
			}
		}
		// menu
		if p.Menus && gn[i].kind != KEndAbnormal {
			nm := t.Weighted(2, 3, 3, 1, 1)
			if nm == 4 {
				nm = t.Range(4, 9)
			}
			for j := 0; j < nm; j++ {
				sel := genSelector(t, j)
				if !p.DupSelectors {
					for _, m := range mouts {
						if m.B == sel {
							sel = fmt.Sprintf("%d", 30+j)
						}
					}
				}
				in := Inst{Op: MOUT, A: newLabel(), B: sel}
				mouts = append(mouts, in)
				code = append(code, in)
			}
			if p.MSink && !haveSink && len(mouts) > 0 && t.Chance(1, 4) {
				msink = true
			}
		}
		if p.Browse && (haveSink || msink) && t.Chance(4, 5) {
			browse = true
			code = append(code, Inst{Op: MNEXT, A: newLabel(), B: []string{"11", "9", "n"}[t.Int(3)]})
			if t.Chance(5, 6) {
				code = append(code, Inst{Op: MPREV, A: newLabel(), B: []string{"22", "8", "p"}[t.Int(3)]})
				if p.BrowseSwap && t.Chance(1, 3) {
					// the order of the two lines is the author's choice
					code[len(code)-2], code[len(code)-1] = code[len(code)-1], code[len(code)-2]
				}
			}
		}
		if msink {
			code = append(code, Inst{Op: MSINK})
		}

		switch gn[i].kind {
		case KEndAbnormal:
			// no HALT
		case KEndGraceful:
			code = append(code, Inst{Op: HALT})
			if p.EndAfterInput && t.Chance(1, 2) {
				// "anything else says goodbye": one selector leads on, every other input falls through to a
				// second HALT behind which nothing is left - the session ends while input was being handled
				code = append(code, Inst{Op: INCMP, A: postTarget(i, false), B: "1"}, Inst{Op: HALT})
			}
		case KInput:
			code = append(code, Inst{Op: HALT})
			for _, s := range loaded {
				if reloadable(s) && t.Chance(1, 2) {
					code = append(code, Inst{Op: RELOAD, A: s})
				}
			}
			if p.Catch && p.FlagCount > 0 && t.Chance(1, 3) {
				code = append(code, Inst{Op: CATCH, A: ".", N: userFlag(), M: t.Chance(1, 2)})
			}
			code = append(code, Inst{Op: MOVE, A: postTarget(i, false)})
		default: // KMenu
			code = append(code, Inst{Op: HALT})
			if p.Refresh && len(mapped) > 0 && t.Chance(1, 5) {
				// the refresh idiom: the node renders a second time, with reloaded values, before it
				// looks at any input (whatever the client sent in between is not consumed)
				var again []Inst
				for _, s := range mapped {
					if reloadable(s) {
						again = append(again, Inst{Op: RELOAD, A: s})
					} else {
						again = append(again, Inst{Op: MAP, A: s})
					}
				}
				for _, in := range code {
					switch in.Op {
					case MOUT, MNEXT, MPREV, MSINK:
						again = append(again, in)
					}
				}
				code = append(code, again...)
				code = append(code, Inst{Op: HALT})
			}
			if p.SingleRoute {
				if t.Chance(1, 2) {
					code = append(code, Inst{Op: INCMP, A: postTarget(i, browse), B: "*"})
				} else {
					code = append(code, Inst{Op: MOVE, A: postTarget(i, false)})
				}
				break
			}
			var inc []Inst
			for _, m := range mouts {
				if t.Chance(9, 10) {
					inc = append(inc, Inst{Op: INCMP, A: postTarget(i, false), B: m.B})
				}
			}
			for _, in := range code {
				if in.Op == MNEXT {
					inc = append(inc, Inst{Op: INCMP, A: ">", B: in.B})
				}
				if in.Op == MPREV {
					inc = append(inc, Inst{Op: INCMP, A: "<", B: in.B})
				}
			}
			if p.LongMenus && t.Chance(1, 6) {
				nl := t.Range(14, 30)
				var long []Inst
				for j := 0; j < nl; j++ {
					long = append(long, Inst{Op: INCMP, A: postTarget(i, browse), B: fmt.Sprintf("7%c", 'a'+j)})
				}
				inc = append(long, inc...)
			}
			extra := t.Weighted(4, 2, 1)
			for j := 0; j < extra; j++ {
				sel := genSelector(t, 10+j)
				if p.DupSelectors && len(inc) > 0 && t.Chance(1, 2) {
					sel = inc[t.Int(len(inc))].B
				}
				inc = append(inc, Inst{Op: INCMP, A: postTarget(i, browse), B: sel})
			}
			fallMove := p.FallMove && len(inc) > 0 && t.Chance(1, 3)
			for _, in := range inc {
				if in.A == ">" || in.A == "<" || in.A == "." {
					// a line that re-enters this node would run the node's own code again behind the MOVE,
					// at the MOVE's target: legal, but then "the page of node X" means nothing any more
					fallMove = false
				}
			}
			if !fallMove && (t.Chance(1, 2) || len(inc) == 0) {
				w := Inst{Op: INCMP, A: postTarget(i, false), B: "*"}
				if p.WildAnywhere && len(inc) > 0 {
					pos := t.Int(len(inc) + 1)
					inc = append(inc[:pos], append([]Inst{w}, inc[pos:]...)...)
				} else {
					inc = append(inc, w)
				}
			}
			if !p.DupSelectors {
				seen := map[string]bool{}
				var u []Inst
				for _, in := range inc {
					if seen[in.B] {
						continue
					}
					seen[in.B] = true
					u = append(u, in)
				}
				inc = u
			}
			if p.Croak && p.FlagCount > 0 && len(inc) > 1 && t.Chance(1, 5) {
				// a CROAK between INCMP lines: reached while input is being read when the earlier lines did not match
				pos := 1 + t.Int(len(inc)-1)
				cr := Inst{Op: CROAK, N: userFlag(), M: t.Chance(1, 2)}
				inc = append(inc[:pos], append([]Inst{cr}, inc[pos:]...)...)
			}
			code = append(code, inc...)
			if fallMove {
				// "0 goes back, anything else goes on": a MOVE behind the INCMP lines instead of a wildcard.
				// It is also what runs first after one of the lines above has matched.
				code = append(code, Inst{Op: MOVE, A: postTarget(i, false)})
			}
		}
		nd.Code = code
		sink := ""
		for _, s := range mapped {
			if a.extByName(s).Size == 0 {
				sink = s
			}
		}
		nd.Tpl[""] = makeTpl(t, p, nd.Name, "", mapped, sink)
		if want, forced := lateNeg[i]; p.NegMapProbe && len(a.Ext) > 0 && i > 0 && (forced || t.Chance(1, 6)) {
			// reference a symbol this node does not map: the render must fail whatever was mapped before the move
			x := a.Ext[t.Int(len(a.Ext))].Name
			if forced {
				x = want
			}
			isMapped := false
			for _, in := range code {
				if (in.Op == MAP || in.Op == RELOAD) && in.A == x {
					isMapped = true
				}
			}
			if !isMapped {
				nd.Tpl[""] = strings.TrimSuffix(nd.Tpl[""], "$") + " NEG=[{{." + x + "}}]$"
				nd.NegProbe = x
			}
		}
		for _, lg := range a.Langs {
			if t.Chance(1, 2) {
				nd.Tpl[lg] = makeTpl(t, p, nd.Name, lg, mapped, sink)
			}
		}
		a.Nodes = append(a.Nodes, nd)
		t.End()
	}

	if p.SizeFlip {
		// one symbol, two roles: a node that loads a sink symbol (size 0) loads it under a size limit
		// instead, so the same name is a paginated sink in one node and an ordinary value in another
		t.Begin("sizeflip")
		type site struct{ n, k int }
		sites := map[string][]site{}
		var syms []string
		for ni, n := range a.Nodes {
			for k := range n.Code {
				if n.Code[k].Op == LOAD && n.Code[k].N == 0 {
					if len(sites[n.Code[k].A]) == 0 {
						syms = append(syms, n.Code[k].A)
					}
					sites[n.Code[k].A] = append(sites[n.Code[k].A], site{ni, k})
				}
			}
		}
		for _, sym := range syms {
			l := sites[sym]
			if len(l) >= 2 {
				// both roles: exactly one of its load sites gets the limit
				x := l[t.Int(len(l))]
				a.Nodes[x.n].Code[x.k].N = 400
			} else if t.Chance(1, 4) {
				a.Nodes[l[0].n].Code[l[0].k].N = 400
			}
		}
		t.End()
	}

	if !p.NoCatchNode {
		t.Begin("catch")
		shape := p.CatchShape
		if shape < 0 {
			shape = t.Int(4)
		}
		catchLoad := p.CatchLoad && len(a.Ext) > 0 && t.Chance(1, 4)
		c := &Node{Name: "_catch", Kind: KCatch, Tpl: map[string]string{"": "@_catch|oops$"}}
		switch shape {
		case 0:
			c.Code = []Inst{{Op: HALT}, {Op: MOVE, A: "_"}}
		case 1:
			c.Code = []Inst{{Op: HALT}, {Op: INCMP, A: "^", B: "*"}}
		case 2:
			c.Code = []Inst{{Op: HALT}, {Op: MOVE, A: "^"}}
		default:
			c.Code = []Inst{{Op: HALT}, {Op: INCMP, A: "_", B: "*"}}
		}
		if catchLoad {
			// the catch node itself loads a symbol (which may fail like any other)
			e := a.Ext[t.Int(len(a.Ext))]
			if e.Size > 0 {
				c.Code = append([]Inst{{Op: LOAD, A: e.Name, N: e.Size}}, c.Code...)
			}
		}
		for _, lg := range a.Langs {
			if t.Chance(1, 2) {
				c.Tpl[lg] = "@_catch~" + lg + "|oops$"
			}
		}
		a.Nodes = append(a.Nodes, c)
		t.End()
	}
	if p.NoTplEnd {
		for _, n := range a.Nodes {
			if n.Kind == KEndGraceful && n.Name != a.Root && t.Chance(1, 3) {
				n.Tpl = map[string]string{}
			}
		}
	}
	if p.LangLikeNames && len(a.Langs) > 0 && len(a.Nodes) > 2 && t.Chance(1, 3) {
		// a node called like the translation of something that does not exist: "nab_nor" where there is no "nab"
		var cands []*Node
		for _, n := range a.Nodes {
			if n.Name != a.Root && n.Kind != KCatch {
				cands = append(cands, n)
			}
		}
		if len(cands) > 0 {
			n := cands[t.Int(len(cands))]
			old, nu := n.Name, n.Name+"_"+a.Langs[t.Int(len(a.Langs))]
			n.Name = nu
			for _, m := range a.Nodes {
				for i := range m.Code {
					switch m.Code[i].Op {
					case MOVE, INCMP, CATCH:
						if m.Code[i].A == old {
							m.Code[i].A = nu
						}
					}
				}
				for lg, tpl := range m.Tpl {
					tpl = strings.ReplaceAll(tpl, "@"+old+"|", "@"+nu+"|")
					m.Tpl[lg] = strings.ReplaceAll(tpl, "@"+old+"~", "@"+nu+"~")
				}
			}
		}
	}
	a.Index()
	return a
}

// pickFlag draws a client flag index: from the pool when there is one, else uniformly.
func (p Profile) pickFlag(t *tape.Tape) uint32 {
	if len(p.flagPool) > 0 {
		return p.flagPool[t.Int(len(p.flagPool))]
	}
	return 8 + uint32(t.Int(int(p.FlagCount)))
}

func (a *App) extByName(s string) *ExtSym {
	for _, e := range a.Ext {
		if e.Name == s {
			return e
		}
	}
	return nil
}

func genSelector(t *tape.Tape, j int) string {
	switch t.Weighted(6, 1, 1, 1) {
	case 0:
		return fmt.Sprintf("%d", j)
	case 1:
		return fmt.Sprintf("0%d", j)
	case 2:
		return string(rune('a' + j%26))
	default:
		return fmt.Sprintf("%d%c", j, 'x'+rune(j%3))
	}
}

func genBehav(t *tape.Tape, p Profile, e *ExtSym) ExtBehav {
	b := ExtBehav{Len: -1}
	if p.Unicode && t.Chance(1, 2) {
		b.Uni = true
	}
	if p.BadUTF8 && t.Chance(1, 3) {
		b.Bad = true
	}
	if p.ExtErrPct > 0 && t.Chance(p.ExtErrPct, 100) {
		b.Err = true
		b.Status = t.Int(3)
		return b
	}
	if e.Size == 0 {
		b.Sink = true
		nr := t.Weighted(1, 2, 2, 3, 3)
		switch nr {
		case 3:
			nr = t.Range(3, 6)
		case 4:
			nr = t.Range(3, max(3, p.MaxRows))
		}
		b.Rows = make([]int, nr)
		for i := range b.Rows {
			if p.EmptyRows && t.Chance(1, 10) {
				b.Rows[i] = 0
			} else {
				b.Rows[i] = t.Range(1, 24)
			}
		}
		if p.EmptyRows && t.Chance(1, 8) {
			b.Rows = append(b.Rows, 0)
			if t.Chance(1, 3) {
				b.Rows = append(b.Rows, 0)
			}
		}
		if p.BigValues && t.Chance(1, 6) {
			b.Rows = []int{65530 + t.Int(12)}
		}
	} else {
		s := int(e.Size)
		switch {
		case p.EmptyPct > 0 && t.Chance(p.EmptyPct, 100):
			b.Len = 0
		case p.OversizePct > 0 && t.Chance(p.OversizePct, 100):
			b.Len = s + 1 + t.Int(3)
			if p.BigValues && t.Chance(1, 2) {
				b.Len = 65536 + t.Int(int(e.Size)+2)
			}
		default:
			switch t.Weighted(4, 2, 2, 1) {
			case 0:
				b.Len = min(s, 8+t.Int(4))
			case 1:
				b.Len = s
				if s > 400 {
					b.Len = 8
					if p.HugePages && s == 65535 && t.Chance(1, 2) {
						// a value that fills its 16-bit limit (almost): the page around it is a little more than 64 KiB
						b.Len = 65535 - t.Int(48)
					}
				}
			case 2:
				b.Len = 1 + t.Int(min(s, 30))
			default:
				b.Len = max(1, min(s, 400)-1)
			}
		}
	}
	if p.ExtFlags && p.FlagCount > 0 {
		ns := t.Weighted(3, 2, 1)
		for i := 0; i < ns; i++ {
			b.Set = append(b.Set, p.pickFlag(t))
		}
		nr := t.Weighted(3, 2, 1)
		for i := 0; i < nr; i++ {
			b.Reset = append(b.Reset, p.pickFlag(t))
		}
	}
	if p.ExtReserved && t.Chance(1, 3) {
		nres := t.Range(1, 3)
		for i := 0; i < nres; i++ {
			f := uint32(t.Int(6))
			if t.Chance(1, 2) {
				b.Set = append(b.Set, f)
			} else {
				b.Reset = append(b.Reset, f)
			}
		}
	}
	if p.ExtTerminate && t.Chance(1, 10) {
		b.Set = append(b.Set, 6)
	}
	if p.ExtLang && t.Chance(1, 4) {
		// 639-3 codes, 639-1 codes, the 639-2 bibliographic forms that differ from 639-3 (fre, ger), and strings that are no code
		b.Lang = []string{"nor", "swa", "no", "fr", "xx", "klingon", "fra", "eng", "fre", "ger", "de"}[t.Int(11)]
		b.Set = append(b.Set, 7)
	}
	return b
}

// makeTpl builds a sentinel-delimited template:  @node[~lang]|filler sym=[{{.sym}}] S<<{{.sink}}>>$
func makeTpl(t *tape.Tape, p Profile, name, lg string, mapped []string, sink string) string {
	s := "@" + name
	if lg != "" {
		s += "~" + lg
	}
	s += "|"
	words := []string{"hello", "pick one", "a", "welcome to the show", "ok"}
	if p.Unicode {
		words = []string{"hello", "velg én", "å", "Områder: Røros → Ålesund", "ok ✓"}
	}
	if t.Chance(2, 3) {
		s += words[t.Int(len(words))]
		if p.MultiRowTpl && t.Chance(1, 3) {
			s += "\n" + words[t.Int(len(words))]
		}
	}
	for _, m := range mapped {
		if m == sink {
			s += " S<<{{." + m + "}}>>"
		} else {
			s += " " + m + "=[{{." + m + "}}]"
		}
	}
	return s + "$"
}

func min(a, b int) int {
	if a < b {
		return a
	}
	return b
}
func max(a, b int) int {
	if a > b {
		return a
	}
	return b
}
