#!/bin/bash
# Takes a behaviour-preserving change made by an independent sub-agent, checks that the
# pinned suite passes with it, stores it under /verif/neutral/<name>/ and runs ALL checks
# against it: every one of them must stay silent.
# usage: neutral_intake.sh <worktree> <name> [check ids... default all]
set -u
VERIF="$(cd "$(dirname "$0")/.." && pwd)"
WT="$1"; NAME="$2"; shift 2
CHECKS="${*:-C01 C02 C03 C04 C05 C06 C07 C08 C09 C10 C11 C12 C13 C15 C17 C18 C19 C20}"
export GOFLAGS=-mod=mod GOPROXY=off GOSUMDB=off GOTOOLCHAIN=local
D="$VERIF/neutral/$NAME"; mkdir -p "$D"
(cd "$WT" && git diff > "$D/patch.diff")
[ -s "$D/patch.diff" ] || { echo "no change in $WT"; exit 2; }
cp "$WT.report.md" "$D/report.md" 2>/dev/null
(cd "$WT" && go test -vet=off -count=1 ./... > /tmp/nsuite.$$ 2>&1)
sf="$(grep -v 'gdbm\|no test files\|dbconvert\|build failed' /tmp/nsuite.$$ | grep -c '^FAIL[[:space:]]\|^--- FAIL')"; rm -f /tmp/nsuite.$$
echo "suite failures with change: $sf"
RES="$("$VERIF/tools/mutant.sh" "$D/patch.diff" $CHECKS 2>&1 | grep 'CAUGHT\|INFRA\|^RESULT')"
echo "$RES"
python3 - "$D" "$NAME" "$sf" "$RES" <<'PY'
import json,sys,os
d,name,sf,res=sys.argv[1:5]
json.dump({"name":name,"kind":"behaviour-preserving change by an independent sub-agent","suite_failures_with_change":int(sf),"checks_result":res.strip().splitlines()},open(os.path.join(d,"meta.json"),"w"),indent=1)
PY
