package world

import (
	"bytes"
	"context"
	"fmt"
	"io"

	"git.defalsify.org/vise.git/cache"
	"git.defalsify.org/vise.git/engine"
)

// LoopResult is what one call of engine.Loop did.
type LoopResult struct {
	Steps    []Step // one per input the loop consumed (Out = what reached the writer for it)
	Consumed int    // number of inputs consumed (the initial one included)
	Err      string // error returned by Loop ("" = nil)
	Panic    string
	PanicAt  string
}

// loopReader hands the client's lines to engine.Loop the way a connection does: in chunks of
// drawn size that never reach beyond the end of the current line, so that every Read issued at
// the start of a line marks the moment the previous request has been fully served.
type loopReader struct {
	lines   [][]byte
	li, off int
	chunk   func() int
	atLine  func(i int) // called when the reader is asked for the first byte of line i (or for EOF)
	failAt  int         // >= 0: the Read that would start line failAt fails (connection error)
}

func (r *loopReader) Read(p []byte) (int, error) {
	if r.off == 0 {
		r.atLine(r.li)
		if r.failAt >= 0 && r.li == r.failAt {
			return 0, fmt.Errorf("injected failure of the client connection")
		}
	}
	if r.li >= len(r.lines) {
		return 0, io.EOF
	}
	line := append(append([]byte{}, r.lines[r.li]...), '\n')
	n := len(line) - r.off
	if c := r.chunk(); c > 0 && c < n {
		n = c
	}
	if len(p) < n {
		n = len(p)
	}
	copy(p, line[r.off:r.off+n])
	r.off += n
	if r.off == len(line) {
		r.li++
		r.off = 0
	}
	return n, nil
}

// ServeLoop builds a fresh engine for the session (as every restart does) and hands it to the
// library's own engine.Loop: inputs[0] is the initial input, the others arrive as lines on a
// simulated connection read in chunks; after the last line the connection is closed (EOF) or,
// with failAt >= 1, fails before line failAt is delivered. tplFault[i] makes the template lookups of
// input i fail. The session must be persisted.
func (s *Sess) ServeLoop(inputs [][]byte, tplFault []bool, chunk func() int, failAt int) *LoopResult {
	res := &LoopResult{}
	var berr error
	msg, at := Guard(func() { berr = s.build() })
	if msg != "" {
		res.Panic, res.PanicAt = msg, "build:"+at
		return res
	}
	if berr != nil {
		res.Err = "build: " + berr.Error()
		return res
	}
	var out bytes.Buffer
	cur := -1
	begin := func(i int) {
		// request i starts: close the previous one
		if cur >= 0 {
			st := s.cur
			st.Out = out.String()
			if n := len(st.Out); n > 0 && st.Out[n-1] == '\n' {
				st.Out = st.Out[:n-1] // the line feed Loop adds after every non-empty page
			}
			st.Cont = true
			st.Flushed = true
			res.Steps = append(res.Steps, *st)
			out.Reset()
		}
		cur = i
		if i < len(inputs) {
			s.cur = &Step{Input: string(inputs[i]), Fresh: i == 0}
			s.FailTemplateThisRequest = i < len(tplFault) && tplFault[i]
			s.W.Rec.Add(s.Idx, "LoopExec", string(inputs[i]), "")
		} else {
			s.cur = nil
		}
	}
	rd := &loopReader{lines: inputs[1:], chunk: chunk, failAt: failAt - 1, atLine: func(li int) { begin(li + 1) }}
	if failAt < 1 {
		rd.failAt = -1
	}
	begin(0)
	var lerr error
	eng := s.Eng
	msg, at = Guard(func() { lerr = engine.Loop(context.Background(), eng, rd, &out, inputs[0]) })
	if msg != "" {
		res.Panic, res.PanicAt = msg, "Loop:"+at
	}
	if lerr != nil {
		res.Err = lerr.Error()
	}
	if s.cur != nil {
		// the request during which Loop returned
		st := s.cur
		st.Out = out.String()
		if n := len(st.Out); n > 0 && st.Out[n-1] == '\n' {
			st.Out = st.Out[:n-1]
		}
		st.Flushed = true
		st.Finished = true
		st.Cont = false
		if lerr != nil {
			st.ExecErr = lerr.Error()
		}
		st.Panic, st.PanicAt = res.Panic, res.PanicAt
		res.Steps = append(res.Steps, *st)
	}
	res.Consumed = len(res.Steps)
	s.cur = nil
	s.FailTemplateThisRequest = false
	if s.Pe != nil {
		s.St = s.Pe.GetState()
		if c, ok := s.Pe.GetMemory().(*cache.Cache); ok {
			s.Ca = c
		}
	}
	for i := range res.Steps {
		s.Steps = append(s.Steps, res.Steps[i])
		pp, pi := s.Position()
		s.PosLog = append(s.PosLog, Pos{pp, pi, len(s.CallLog)})
	}
	s.W.Rec.Add(s.Idx, "LoopDone", fmt.Sprintf("consumed=%d err=%v", res.Consumed, lerr != nil), "")
	// Loop has called Finish itself (its defer); the engine is spent
	s.Eng = nil
	s.Pe = nil
	return res
}
