package world

import (
	"context"

	"git.defalsify.org/vise.git/db"
	memdb "git.defalsify.org/vise.git/db/mem"
)

// UseMem installs the memory backend: the memDb object itself is the durable medium of a
// session (a restart keeps the object and builds everything else anew).
func (w *World) UseMem() {
	stores := map[int]db.Db{}
	w.NewStore = func(s *Sess) (db.Db, error) {
		if st, ok := stores[s.Idx]; ok {
			return st, nil
		}
		st := memdb.NewMemDb()
		if err := st.Connect(context.Background(), ""); err != nil {
			return nil, err
		}
		stores[s.Idx] = st
		return st, nil
	}
}
