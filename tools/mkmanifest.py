#!/usr/bin/env python3
"""Writes /verif/MANIFEST.json from the table below (single source of truth for the interface)."""
import json, os

V = os.path.dirname(os.path.dirname(os.path.abspath(__file__)))

TECH = "deterministic simulation with fault injection: "

checks = {
 "C02": dict(level="exploration", design="§4 C02",
   technique=TECH + "page walks (next to past the end, previous to before the start) with a restart between pages, partition oracle over the recorded walk, unsized twin for the full page",
   text="Seeded search over sink contents (row lengths around the page capacity, empty and trailing-empty rows, MSINK menus), sizes, separators and labels; a client walks all pages with a fresh engine per page request; the pages must partition the rows in order, carry the static part, offer next/previous exactly where they apply, every offered entry must render, and requests past either end must not be answered with a page of the node. One run in 6 starts its walk from the page that comes again with an invalid-input line on top (catch node that only moves back). Sampling. Two defects are known findings: a row that fits on no later page (pinned by the existing tests), and walks that start from a page carrying an error line.",
   note="Trusted: output parser over sentinel templates; trailing empty rows are not compared (no glyphs)."),
 "C15": dict(level="fault_enumeration", design="§4 C15",
   technique=TECH + "storage-corruption fault on bytecode records: every truncation, every byte replaced by 8 values, appended garbage; readers (engine/VM, the parser's disassembler, and for long records the repository's disassembler executable) against an independent decoder",
   text="For sampled valid programs using all twelve opcodes the stored record is damaged in every way of the catalogue and handed to the VM (through the resource seam, two requests) and to the disassembler; an independent decoder classifies each damaged record; no reader may panic in decoding, the disassembler must fail iff the record is malformed, the VM must fail on a truncated instruction, never report success past a malformed one (also not by showing the decoding error on a catch page after an earlier external failure) and not go on from behind it on the next request. Every second run repeats a set of damages behind 300 to 70000 complete valid instructions.  In half the runs a second symbol whose name extends the first one's is loaded and mapped. For the long records a third reader runs: the repository's disassembler executable (dev/disasm, built by build.sh) on a real file, judged by its exit status. Exhaustive per program over the catalogue; programs sampled. Claimed only as a storage fault (not arbitrary byte strings, not coverage-guided fuzzing).",
   note="Trusted: refcodec decoder written from the documentation; panics outside the decoding functions (e.g. a decoded flag index out of range) are execution semantics and only counted."),
 "C19": dict(level="exploration", design="§4 C19",
   technique=TECH + "2..16 session goroutines under a seeded baton scheduler (one runs at a time, next task drawn from the tape at every seam event and, for sessions on the filesystem store in one shared directory, before every file-system call), hand-off hidden from the race detector; solo-vs-concurrent twin, canary in shared tables, -race child processes",
   text="Seeded search over schedules: sessions sharing only immutable application tables are served first alone, then concurrently under a scheduler that decides every interleaving from the tape; transcripts must be equal, the shared tables including a canary in the spare capacity of every bytecode slice must be untouched, and a third (quick) / all (thorough) of the worlds are re-run in a -race build in which the scheduler's own hand-offs are invisible, so that any conflicting access between two sessions is reported and replayable from the tape. Every world of a run gets its own stamped instance of the application (templates, label symbols; blanked before comparison), so that anything the library keeps process-wide by content or name shows as a difference between the phases; one run in 6 scripts sessions in different languages onto one paginated node; one run in 8 serves all sessions through one shared gettext resource of the library. Sampling over schedules.",
   note="Trusted: baton scheduler (sched), runtime.RaceDisable around the hand-off, ThreadSanitizer's bounded history; per-session harness state so that only library state is shared."),
 "C03": dict(level="exploration", design="§4 C03",
   technique=TECH + "seeded programs x input histories with restarts and failing external calls, refinement of the recorded move history against the reference model refvm",
   text="Seeded search over generated INCMP blocks (duplicates, wildcard anywhere, relative targets) and input histories; the ordered code fetches of every request (one per successful move) must equal the routing decision of an independent reference model written from the documentation; unmatched input must land on the catch node showing the input; a quarter of the runs have the library's debugger attached, a third have nodes with 14-30 more INCMP lines. Sampling, not proof.",
   note="Trusted: refvm (model of the VM over the IR), the independent bytecode encoder, one-GetCode-per-move observation. The model abstains after execution errors."),
 "C04": dict(level="exploration", design="§4 C04",
   technique=TECH + "seeded move histories with single-candidate routing, restarts on all backends, refinement of position against refvm's move table",
   text="Seeded search over node graphs with every target kind from MOVE, INCMP and CATCH and histories of descents, ascents, rewinds, repeats, lateral and failing moves, with restarts on memory, filesystem and Postgres-fake; after every request (path, page index) read from the live/persisted state must equal the documented table, and a failing move must report failure. Requests that the pre-VM function turns away leave the position as it was; the library's debugger is attached in a quarter of the runs; nodes with 14-30 more INCMP lines. Sub-batches: stacks of up to 128 entries, a restart after a failed move, up to 40000 lateral moves in a row. Sampling.",
   note="Trusted: refvm move table; requests whose number of moves differs from the model are left to C03/C06 (counted). '^' on the entry node with a non-zero index is not compared."),
 "C05": dict(level="exploration", design="§4 C05",
   technique=TECH + "seeded LOAD/RELOAD/MAP programs x up/down histories with failing, empty and oversized external results and restarts, refinement of call log, symbol tables and shown values against refvm",
   text="Seeded search over programs loading the same symbols at several depths with results around every limit (empty, at limit, over limit, >= 64 KiB); external call log, per-level symbol tables and values shown on the page must equal the reference model's after every request, templates referencing an unmapped symbol must fail to render, and no stored value may exceed its limit. A quarter of the runs have a generous output size and the library's debugger attached; mapped symbols are now and then RELOADed behind their MAP. Sampling.",
   note="Trusted: refvm; output parser over sentinel templates. Compared only while the position agrees with the model (skipped_upstream otherwise)."),
 "C06": dict(level="exploration", design="§4 C06",
   technique=TECH + "adversarial flag lists injected through external results (reserved indices, TERMINATE), restarts; refinement against refvm plus a stripped-reserved-flags differential twin",
   text="Seeded search over CATCH/CROAK programs whose external functions request arbitrary flag changes; (A) moves and client flags must equal the model's, (B) a twin with indices 0..5 stripped from every result must behave identically down to the stored flag bytes, (C) once TERMINATE is set every request must report stop, output nothing, fetch no code, call nothing and leave the session unchanged. Flag counts up to 66000 (indices that take three bytes in the bytecode); with many flags CATCH/CROAK and external code draw from a small pool of indices with boundaries favoured, so that they meet. Sampling.",
   note="Trusted: refvm; twin comparison cannot mis-model the code. Built-in bookkeeping flags are compared only between twins."),
 "C18": dict(level="exploration", design="§4 C18",
   technique=TECH + "language switches injected through external results (valid, invalid, repeated) with partial translation tables and restarts, over three resource stacks (harness resource, library DbResource over a recording store, library gettext resource over generated .po files); refinement against refvm's language per lookup",
   text="Seeded search over programs that switch language at arbitrary points; the language on the context of every external call and of every template/menu lookup (harness resource) or store lookup (library DbResource over a recording store), also after restart, must be the model's current language; pages must show the translated template/label when one exists and the default entry otherwise; invalid codes must change nothing. Switch attempts use 639-3 codes, 639-1 codes, the 639-2 bibliographic forms that differ from them (fre, ger) and strings that are no code; in a third of the runs one node is named like a translation (its name ends in _<code> of a language with translations). Sampling.",
   note="Trusted: refvm language rules; a small table of valid ISO-639 codes in the model."),
 "C20": dict(level="exploration", design="§4 C20",
   technique=TECH + "histories continuing past graceful and abnormal session ends with a restart before every request on all backends, refinement against refvm's end/blocked behaviour",
   text="Seeded search over programs with both kinds of end node and TERMINATE-setting external code; after a graceful end the stored session must have an empty symbol cache and the same client flags and the next request must run the entry node afresh; after an abnormal end every later request must report stop, output nothing and run nothing until the harness clears the flag. Sampling.",
   note="Trusted: refvm; nothing is asserted after the harness cleared TERMINATE.  One run in 4 keeps the session's persister between requests; after client code has cleared TERMINATE in the stored session (own handle and persister) the next request must be served again. One request in 10 has the store fail the read of the session record: the session must not be lost over it (the model is not advanced; a blocked session is still blocked afterwards); on the Postgres store the fault is one failing driver call of the request at a drawn offset instead.  At a graceful end the final output must end with the value the session loaded last (the exit value). The library's debugger is attached in a quarter of the runs. Template-lookup and client-write faults are injected on arbitrary requests including the one that ends the session: the page is then not compared, the restart/blocking behaviour is."),
 "C09": dict(level="exploration", design="§4 C09",
   technique=TECH + "seeded cache operation histories with snapshot/restore (restart) injected between operations, refinement against a reference cache, failure-atomicity check",
   text="Seeded operation histories over the cache API (values across the 16-bit boundary, limits, capacities) checked operation by operation against a small reference cache: limit and capacity enforcement, exact byte accounting, one scope per symbol, release on Pop/Reset, and unchanged exported state after every rejected operation; a sub-batch serialises and restores the cache between operations. The cache is sequential: the family contributes histories, restart as a fault and the model, not schedules. Sampling.",
   note="Trusted: the reference cache (maps with limits). Acceptance of an operation the model accepts is not demanded (counted as probe)."),
 "C10": dict(level="exploration", design="§4 C10",
   technique=TECH + "one operation history in lock-step on memory, filesystem (simulated disk, text and binary keys) and Postgres (fake server) with handle reopen, refinement against a reference map",
   text="Seeded histories of Put/Get/SetPrefix/SetSession/SetLanguage/SetLock/seal/Dump/reopen applied in lock-step to every backend through two handles with independent sticky context and to a reference map; every Get, every refused locked write, every not-found error and every filesystem listing must agree with the map and hence with each other. The caller reuses its key/value buffers, overwrites what Get handed out and calls Close on handles it keeps using; the simulated file system enforces NAME_MAX. Values of 64 KiB to 300 KB now and then; a Put while the disk fills up (ENOSPC after a drawn number of bytes, file-system media) must fail and leave the latest successful write readable; listings of language-aware types must contain every key that has a default-language entry. One run in 400 lists 4090-4300 keys. Sampling.",
   note="Trusted: reference map keyed by (type, session if sessioned, key, language if translated); pgfake stands in for Postgres; well-formed keys and dot-free session ids only (adversarial ones are C11)."),
 "C11": dict(level="exploration", design="§4 C11",
   technique=TECH + "adversarial key/session histories over all backends with reopen, unique tagged values, plus an injectivity sweep over a small adversarial alphabet",
   text="Every value written is tagged with its (type, session, key); a read or a per-session listing that returns a value tagged with a different triple is a violation, as is any path addressed outside the store directory on the simulated disk. A third kind of run goes through the engine: 2-3 sessions with related ids served alternately over ONE shared store handle (optionally one shared flushing persister, a cache capacity) must see the outputs and leave the stored records they do when served alone. Persister policies of the gateway: a new one per request, one shared flushing one, or one kept per session that selects its session through Persister.WithSession. Listings are now and then dropped midway, without Close, and followed by a listing of another data type on the same handle. The sweep is exhaustive over the stated alphabet and length; histories are sampled. Three encoding collisions that cannot be repaired without breaking stored data are listed as known findings (reported as KNOWN-FINDING, not suppressing other shapes).",
   note="Trusted: collision-shape classifier used only to match known findings; triples a backend rejects are skipped on that backend."),
 "C12": dict(level="fault_enumeration", design="§4 C12",
   technique=TECH + "crash (process death) injected at every file-system micro-step and write offset of every save on a simulated disk; old-or-new record oracle plus continuation twins",
   text="For every request of sampled histories the real db/fs (compiled against the simulated os) is crashed at every micro-step and byte offset of every save; the record must be byte-equal to a complete record from before or after the interrupted save, other records untouched, and a fresh engine on the crashed disk must continue like a twin started from the old or the new record. One run in 8 uses an application whose session record exceeds 64 KiB (crash offsets then around every 4 KiB boundary and 64 KiB); the complete record of every request is also continued by a twin that is handed the same bytes by the memory backend, so that a record both fs sides fail to read alike does not pass.  One run in 5 (text-key store) moves the records to their legacy file names between requests. After every crash the state records are also listed: each complete record in the directory is listed, whatever temporary files lie next to it. Exhaustive per save within the stated offset rule; histories sampled.",
   note="Trusted: simfs (in-memory model of open/create/truncate/write/close/rename/remove with process-death semantics, no lost un-synced data); the AST import rewrite of db/fs."),
 "C13": dict(level="fault_enumeration", design="§4 C13",
   technique=TECH + "every single and (thorough: every, quick: sampled) double failing driver call on an in-process transactional fake of pgx, transaction log + acknowledged-write model",
   text="For sampled operation histories on the real db/postgres every primitive driver call (BeginTx, Exec, Query, Next, Scan, Commit incl. in-doubt, Rollback) is made to fail once - with a synthetic error or by the request context being cancelled in mid-flight - and every pair in the thorough tier; a faulted read may fail with any error but 'not found' for a key whose write was acknowledged; Connect again on a connected handle (documented as ignored) is an operation inside explicit transactions; histories include listings (Dump) and the table set-up step of Connect (through the one guarded hook in /repo); the faulted operation must report an error, no call may reach an ended transaction, every transaction must be ended by commit/rollback, later single operations must succeed, acknowledged writes must not be lost, and all-success explicit transactions must be visible at Stop and invisible after Abort.",
   note="Trusted: pgfake (stub of Postgres + pgx objects; read-committed, statement error aborts the transaction); the acknowledged/in-doubt model."),
 "C01": dict(level="exploration", design="§4 C01",
   technique=TECH + "seeded histories with restarts, failing external calls and client garbage; size invariant on every Flush plus unsized differential twin",
   text="Seeded search over generated applications, contents, page indices and input histories with the output size drawn around the unlimited page lengths; invariant len(output) <= OutputSize on every page handed to the client, and comparison with an unsized twin at the same position to rule out silent truncation. Sampling, not proof.",
   note="Trusted: output parser over sentinel-delimited generated templates; scripted external functions. Also compared: the final output of a session with the unsized twin's (a page dropped without error is a violation). Text is generated with multi-byte characters; one run in 12 has values that fill a 65535-byte limit (pages just over 64 KiB).  One run in 4 of the engine-per-request kind has a pre-VM function that now and then turns a request away with a notice of drawn length (output like any other); MPREV before MNEXT is drawn too. End nodes without any template record (the session ends with its bare exit value) are generated. No known finding left (two were repaired in /repo, see known_findings.json 'fixed')."),
 "C08": dict(level="exploration", design="§4 C08",
   technique=TECH + "junk-heavy client histories with restarts and failing external calls over generated and example applications; recover() + consistency invariants + save/load/continue probe",
   text="Seeded search over well-formed generated applications and the repository's examples (assembled with the real assembler), all modes and backends; the first requests of every example are swept systematically over its selector alphabet plus junk. Faults: failing external functions, failing pre-VM function (also placed at the depth limit), template-lookup and client-write errors, restarts. Any panic of library code, any violated consistency invariant after a request, a session that cannot be saved, loaded and continued, and a request that does not return (confirmed in fresh processes) is a violation. The pre-VM function also turns requests away (TERMINATE plus notice), and the capacity configured for the symbol cache must still be the session's after every request. Sampling beyond the sweep depth.",
   note="Trusted: well-formedness validator of the generator (targets exist, _catch defined, flags in range, no static self-move, HALT on every move cycle; depth is NOT bounded: one run in 50 climbs to and beyond the 128-entry limit); simfs/pgfake stubs for the fs and Postgres backends."),
 "C17": dict(level="exploration", design="§4 C17",
   technique=TECH + "client-garbage injection into histories, with/without differential twins, snapshot comparison before/after refused requests",
   text="Seeded search over histories with refusal candidates and Flush-without-Exec probes inserted at drawn positions, long-lived and persisted operation on every backend; a refused request must produce no output, run no code, leave the live and the stored session unchanged, and the twin without the refused requests must see identical results. The application has registered an input format of its own (process-wide registry of the library, filled once before any run); in half the runs the gateway reads every request into one buffer. A candidate longer than state.INPUT_LIMIT bytes that is accepted is a violation (the one refusal the property spells out). Sampling, not proof.",
   note="Trusted: harness gateway; candidates the engine accepts are not refusals and end the comparison (counted)."),
 "C07": dict(level="exploration", design="§4 C07",
   technique=TECH + "seeded restart injection at request boundaries, differential twins (long-lived / persisted / mixed), tape shrinking",
   text="Seeded search over generated applications, configurations and input histories; every history is served by three twins of the real engine (one long-lived engine, a fresh engine+persister+store handle per request, fresh at a drawn subset; the same template-lookup and client-write faults hit the same request of each) and, in a third of the runs, by a fourth twin through the library's engine.Loop over a simulated connection (lines in chunks, close or failure at drawn lines); all client-visible results must agree request by request. One run in 8 is a pair of engine-per-request twins, one with a new persister per request and one whose persister is kept between requests, continued through failed and unsaved requests: answers and session state must agree (a load replaces everything the persister held). In half of those runs the gateway has two workers, each with a kept persister and store handle of its own. Three short scripted applications are mixed into the batch for combinations random histories reach too late. Sampling, not proof; no model of the VM is involved, so the check cannot mis-model the code. One known finding (results that are not valid UTF-8 cannot be resumed).",
   note="Trusted: the harness gateway (Exec/Flush/Finish order as in examples/http), scripted external functions that are deterministic in (symbol, call index, input), the independent bytecode encoder. Comparison stops at the first stop/error of a session."),
}

pending = {
}

not_applicable = {
 "C14": "pure function of one instruction sequence (encode/decode round trip): no state, history, environment, fault or schedule for a simulator to control; see DESIGN.md §5",
 "C16": "pure text-to-bytecode translation (assembler fidelity): no state, history, environment, fault or schedule; see DESIGN.md §5",
}

ALL = ["C%02d" % i for i in range(1, 21)]

m = {
 "version": 1,
 "setup_cmd": "./setup.sh",
 "hooks": {
   "guard": "verif",
   "enable": "build.sh compiles the simulator with `go build -tags verif`, which compiles one added file in /repo, db/postgres/verif_hook.go (a method VerifEnsureTable that calls the unexported table set-up step of Connect; the harness injects its connection with WithConnection and never goes through Connect). All other seams are existing interfaces; db/fs is compiled against a simulated os/ioutil through `go build -overlay` with an AST-rewritten copy made from the current /repo/db/fs at check time (tools fsrewrite), which does not modify /repo",
   "baseline_off_cmd": "cd /repo && GOFLAGS=-mod=mod GOPROXY=off GOSUMDB=off GOTOOLCHAIN=local go test -vet=off -count=1 ./...",
   "source_commits": ["53a3303"],
   "add_only": True,
 },
 "engines": [
   {"name": "visim", "path": "sim", "serves_properties": sorted(checks.keys()),
    "kind_free_text": "deterministic simulator: choice tape (one seed = one run), recording seams, fault injection, reference models / differential twins, tape shrinker, replay files"},
 ],
 "checks": [],
 "not_applicable": [],
 "notes": "Exit codes of every command: 0 held / 1 VIOLATION line printed / 2 infrastructure trouble (never a violation). Known findings: known_findings.json. Replays: replays/<id>/*.json, replayed with ./replay.sh <file>.",
}
for pid in ALL:
    if pid in checks:
        c = checks[pid]
        m["checks"].append({
          "property_id": pid,
          "quick_cmd": "./check.sh %s quick" % pid,
          "thorough_cmd": "./check.sh %s thorough" % pid,
          "evidence_file": "evidence/%s.json" % pid,
          "replay_cmd_template": "./replay.sh {path}",
          "engine": "visim",
          "level_claimed": {"category": c["level"], "text": c["text"], "design_ref": c["design"]},
          "level_note": c["note"],
          "technique": c["technique"],
        })
    elif pid in not_applicable:
        m["not_applicable"].append({"property_id": pid, "reason": not_applicable[pid]})
    else:
        m["not_applicable"].append({"property_id": pid, "reason": "not claimed yet: the simulation for this property is planned (DESIGN.md §4) but not built/validated at this commit"})
json.dump(m, open(os.path.join(V, "MANIFEST.json"), "w"), indent=1)
print("wrote MANIFEST.json with", len(m["checks"]), "checks")
