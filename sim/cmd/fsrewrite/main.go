// fsrewrite copies the non-test Go files of a package directory into a scratch directory
// with the imports "os" and "io/ioutil" redirected to visim/simfs, and writes a
// `go build -overlay` file mapping the originals to the copies.
//
// usage: fsrewrite <package dir> <scratch dir> <overlay.json>
package main

import (
	"encoding/json"
	"fmt"
	"go/ast"
	"go/format"
	"go/parser"
	"go/token"
	"os"
	"path/filepath"
	"strconv"
	"strings"
)

func main() {
	if len(os.Args) != 4 {
		fmt.Fprintln(os.Stderr, "usage: fsrewrite <package dir> <scratch dir> <overlay.json>")
		os.Exit(2)
	}
	src, dst, ov := os.Args[1], os.Args[2], os.Args[3]
	if err := os.MkdirAll(dst, 0755); err != nil {
		fatal(err)
	}
	ents, err := os.ReadDir(src)
	if err != nil {
		fatal(err)
	}
	repl := map[string]string{}
	for _, e := range ents {
		n := e.Name()
		if e.IsDir() || !strings.HasSuffix(n, ".go") || strings.HasSuffix(n, "_test.go") {
			continue
		}
		fset := token.NewFileSet()
		p := filepath.Join(src, n)
		f, err := parser.ParseFile(fset, p, nil, parser.ParseComments)
		if err != nil {
			fatal(err)
		}
		changed := false
		for _, im := range f.Imports {
			ip, _ := strconv.Unquote(im.Path.Value)
			var alias string
			switch ip {
			case "os":
				alias = "os"
			case "io/ioutil":
				alias = "ioutil"
			default:
				continue
			}
			if im.Name != nil {
				alias = im.Name.Name
			}
			im.Name = ast.NewIdent(alias)
			im.Path.Value = strconv.Quote("visim/simfs")
			changed = true
		}
		if !changed {
			continue
		}
		out := filepath.Join(dst, n)
		w, err := os.Create(out)
		if err != nil {
			fatal(err)
		}
		if err := format.Node(w, fset, f); err != nil {
			fatal(err)
		}
		w.Close()
		abs, _ := filepath.Abs(p)
		repl[abs] = out
	}
	b, _ := json.MarshalIndent(map[string]interface{}{"Replace": repl}, "", " ")
	if err := os.WriteFile(ov, b, 0644); err != nil {
		fatal(err)
	}
}

func fatal(err error) {
	fmt.Fprintln(os.Stderr, "fsrewrite:", err)
	os.Exit(2)
}
