package checks

import (
	"fmt"
	"strings"

	"visim/app"
	"visim/core"
	"visim/world"
)

func init() {
	core.Register(&core.Check{
		ID:    "C18",
		Level: "exploration",
		Rule: "one run = one generated application whose external functions switch language at arbitrary points (LANG with valid 2- and 3-letter codes, invalid strings, several switches), default language by configuration or none, translations present for a drawn subset of templates and menu labels + a history with restarts at every boundary in half of the runs; " +
			"two resource stacks: the harness resource (language observed on the context of every GetTemplate/GetMenu/FuncFor/EntryFunc call) and the library's DbResource over a recording store (language observed on every store lookup, fallback observed on the page); " +
			"non-trivial = at least one language switch followed by a lookup, or a lookup with a missing translation; distinct = distinct sequences of (node, language)",
		Runs:       map[string]int{"quick": 30000, "thorough": 3500000},
		MaxSeconds: map[string]int{"quick": 40, "thorough": 900},
		Run:        runC18,
		Assumptions: []string{
			"requests on which the position differs from the model's are left to C03/C04 (skipped_upstream)",
			"an external result with LANG and empty content is not generated (the text does not say what it means)",
			"validity of ISO-639 codes is judged by a small table in the model (nor/no, swa/sw, fra/fr/fre, deu/de/ger, eng/en valid; xx, klingon invalid)",
		},
		Real:       append(append([]string{}, realAll...), "resource.DbResource over db/mem (second stack)", "resource.PoResource over generated .po files on the real file system (third stack, 1 run in 12)"),
		Stub:       append(append([]string{}, stubAll...), "reference model refvm (oracle)"),
		FaultKinds: []string{"restart", "ext_lang_switch", "ext_lang_invalid", "lookup_miss", "ext_error"},
	})
}

func c18Profile(flagCount uint32) app.Profile {
	return app.Profile{
		MaxNodes: 5, MaxExt: 4, FlagCount: flagCount,
		Menus: true, Sinks: false,
		ExtLang: true, ExtErrPct: 2,
		SingleRoute: true, RelTargets: true, Translations: true, StaticSyms: true,
		CatchShape: -1,
	}
}

func runC18(c *core.Ctx) *core.Outcome {
	t := c.T
	o := core.NewOutcome()
	cfg := genCfg(t)
	cfg.Backend = world.BackMem
	cfg.FinishAlways = true
	cfg.CacheSize = 0
	cfg.OutputSize = 0
	cfg.Language = []string{"", "nor", "eng", "swa"}[t.Int(4)]
	// a pre-VM function whose result is empty, ordinary text or happens to read like a language code
	cfg.First = t.Chance(1, 3)
	if cfg.First {
		cfg.FirstContent = []string{"", "-", "fra", "sw", "xx"}[t.Int(5)]
	}
	// resource stack: the harness resource, the library's DbResource over a recording store, or (one run
	// in 12: it needs files on the real file system) the library's gettext resource over generated .po files
	stack := t.Weighted(11, 11, 2)
	prof := c18Profile(cfg.FlagCount)
	if stack == 2 {
		prof.StaticSyms = false // static loads are a DbResource feature
	}
	prof.LangLikeNames = stack != 2 // a node called like a translation ("nab_nor"): its own translations still have to be found
	a := app.Generate(t, prof)
	if err := a.Validate(); err != nil {
		panic("generator produced ill-formed app: " + err.Error())
	}
	persisted := t.Chance(1, 2)
	dbStack := stack == 1
	r := newModelRun(a, cfg, persisted)
	defer r.w.Close()
	if dbStack {
		if err := r.w.UseDbResource(); err != nil {
			panic("cannot build DbResource: " + err.Error())
		}
	}
	if stack == 2 {
		if err := r.w.UsePoResource(); err != nil {
			panic("infrastructure: cannot set up the gettext resource: " + err.Error()) // exit 2, never a violation
		}
		o.Probes["runs_on_gettext_resource"]++
	}
	r.s.KeepLookups = true
	nreq := t.Range(2, 12)
	switches, misses := 0, 0
	for i := 0; i < nreq; i++ {
		t.Begin("request")
		var in []byte
		cur := r.curNode()
		if i > 0 {
			in = genInput(t, a, cur, 1)
		}
		t.End()
		langBefore := r.m.Lang
		nl := len(r.s.Lookups)
		nc := len(r.s.CallLog)
		ob := r.request(in, persisted)
		o.Counts["requests"]++
		if persisted && i > 0 {
			o.Faults["restart"]++
		}
		if ob.panic {
			o.Probes["foreign_panic"]++
			break
		}
		if ob.refused {
			continue
		}
		if ob.exp.Skip {
			o.Counts["out_of_envelope"]++
			break
		}
		if ob.exp.ExecErr || ob.st.ExecErr != "" {
			break
		}
		if !ob.pathAgree || !ob.movesAgree || !ob.callsAgree {
			if !ob.browseOOR {
				o.Counts["skipped_upstream"]++
				break
			}
		}
		if r.m.Lang != langBefore {
			switches++
			o.Faults["ext_lang_switch"]++
		}
		for _, cl := range ob.exp.Calls {
			if cl.Err {
				o.Faults["ext_error"]++
			}
		}
		o.States = append(o.States, h64(last(r.m.Path), r.m.Lang, stackName(dbStack), len(ob.exp.Calls)))
		o.Probes["requests_on_"+stackName(dbStack)]++
		for _, cl := range calls18(r, nc) {
			if cl.Out == "xx" || cl.Out == "klingon" {
				o.Faults["ext_lang_invalid"]++
			}
		}
		// 1. language seen by every external function call
		var calls []world.ExtCall
		for _, cl := range r.s.CallLog[nc:] {
			if cl.Sym == "_first" {
				// not an instruction of the program; it runs before anything else of the request
				if cl.Lang != langBefore {
					return finishModel(o, c, r).Fail("wrong-language-on-call", i, map[string]string{"stack": stackName(dbStack), "call": "pre-vm"}, "request %d input %s: the pre-VM function was called with language %q on the context, the selected language is %q", i, short(string(in)), cl.Lang, langBefore)
				}
				o.Probes["pre_vm_call_checked"]++
				continue
			}
			calls = append(calls, cl)
		}
		for k, cl := range ob.exp.Calls {
			if k < len(calls) && calls[k].Lang != cl.Lang {
				return finishModel(o, c, r).Fail("wrong-language-on-call", i, map[string]string{"stack": stackName(dbStack)}, "request %d input %s: external function %s#%d was called with language %q on the context, the selected language at that point is %q", i, short(string(in)), cl.Sym, cl.K, calls[k].Lang, cl.Lang)
			}
		}
		// 2. language of the lookups made while rendering (after all calls of the request returned)
		renderLang := r.m.Lang
		seenEntry := 0
		for _, lk := range r.s.Lookups[nl:] {
			if lk.Kind == "entry" {
				seenEntry++
				continue
			}
			isRender := lk.Kind == "template" || lk.Kind == "menu" || lk.Kind == "db:4" || lk.Kind == "db:2"
			if !isRender {
				continue
			}
			if seenEntry < len(ob.exp.Calls) {
				continue // a render lookup cannot precede the calls; defensive
			}
			if lk.Lang != renderLang {
				return finishModel(o, c, r).Fail("wrong-language-on-lookup", i, map[string]string{"stack": stackName(dbStack), "kind": lk.Kind}, "request %d input %s: %s lookup of %q was made in language %q, the selected language is %q (before the request %q)", i, short(string(in)), lk.Kind, lk.Sym, lk.Lang, renderLang, langBefore)
			}
			o.Probes["render_lookup_checked"]++
		}
		// 3. what the page shows: translated template if there is one, else the default entry
		if ob.st.FlushErr == "" && ob.page.OK && ob.page.Node == ob.exp.Node {
			nd := a.Node(ob.exp.Node)
			want := ""
			if nd != nil && renderLang != "" {
				if _, ok := nd.Tpl[renderLang]; ok {
					want = renderLang
				} else {
					misses++
					o.Faults["lookup_miss"]++
				}
			}
			if ob.page.Lang != want {
				return finishModel(o, c, r).Fail("wrong-template-language", i, map[string]string{"stack": stackName(dbStack)}, "request %d input %s: page of %s is the %q template, selected language %q, translations exist for %v", i, short(string(in)), ob.exp.Node, ob.page.Lang, renderLang, tplLangs(nd))
			}
			// values shown: what was loaded in the language in force at load time (static-load symbols)
			for sym, shown := range ob.page.Vals {
				if mv := findSym(r, sym); mv != nil && mv.Val != shown {
					x := a.ExtSym(sym)
					kind := "scripted"
					if x != nil && x.Static != nil {
						kind = "static-load"
					}
					return finishModel(o, c, r).Fail("wrong-value-language", i, map[string]string{"stack": stackName(dbStack), "kind": kind}, "request %d: page of %s shows %s=%q, loaded value per model %q (%s symbol, selected language %q)", i, ob.exp.Node, sym, shown, mv.Val, kind, renderLang)
				}
			}
			// menu labels
			if nd != nil {
				for _, in2 := range nd.Code {
					if in2.Op != app.MOUT {
						continue
					}
					exp := in2.A
					if m := a.Labels[in2.A]; m != nil {
						if v, ok := m[renderLang]; ok && renderLang != "" {
							exp = v
						} else if v, ok := m[""]; ok {
							exp = v
						}
					}
					found := false
					for _, l := range ob.page.Menu {
						if strings.HasSuffix(l, exp) && strings.HasPrefix(l, in2.B) {
							found = true
						}
					}
					if !found && len(ob.page.Menu) > 0 && ob.exp.Cont {
						return finishModel(o, c, r).Fail("wrong-label-language", i, map[string]string{"stack": stackName(dbStack)}, "request %d: menu entry %s of %s should read %q in language %q (translations %v); menu shown: %q", i, in2.B, ob.exp.Node, exp, renderLang, a.Labels[in2.A], ob.page.Menu)
					}
				}
			}
		}
		if !ob.exp.Cont || !ob.st.Cont {
			break
		}
	}
	// invalid codes offered?
	for _, e := range a.Ext {
		for _, b := range e.Script {
			if b.Lang == "xx" || b.Lang == "klingon" {
				o.Probes["app_offers_invalid_code"]++
			}
		}
	}
	o.Nontrivial = switches > 0 || misses > 0
	return finishModel(o, c, r)
}

func stackName(db bool) string {
	if db {
		return "DbResource"
	}
	return "harness-resource"
}

func tplLangs(n *app.Node) []string {
	var l []string
	if n == nil {
		return l
	}
	for k := range n.Tpl {
		l = append(l, fmt.Sprintf("%q", k))
	}
	sortStrings(l)
	return l
}

func calls18(r *modelRun, from int) []world.ExtCall { return r.s.CallLog[from:] }
