#!/bin/bash
# Sensitivity test: applies a patch to a scratch worktree of /repo (never to /repo itself),
# optionally runs the pinned suite there, runs the named checks against the scratch tree
# and reports which of them raise a VIOLATION. Everything is removed afterwards.
# usage: mutant.sh [-s] <patch file> <check id>...      (-s: also run the pinned suite)
set -u
VERIF="$(cd "$(dirname "$0")/.." && pwd)"
SUITE=0
if [ "${1:-}" = "-s" ]; then SUITE=1; shift; fi
PATCH="$(readlink -f "$1")"; shift
TIER="${VERIF_TIER:-quick}"
WT="$(mktemp -d "${TMPDIR:-/tmp}/visim-mut.XXXXXX")"
cleanup() { git -C /repo worktree remove --force "$WT/repo" >/dev/null 2>&1; rm -rf "$WT"; }
trap cleanup EXIT
git -C /repo worktree add --detach "$WT/repo" "${MUTANT_BASE:-HEAD}" -q || exit 2
if ! git -C "$WT/repo" apply "$PATCH" 2>/dev/null; then
  # later repairs in /repo may have moved the context: try a three-way merge against the blobs the patch names
  if ! git -C "$WT/repo" apply --3way "$PATCH" >/dev/null 2>&1 || git -C "$WT/repo" diff --name-only --diff-filter=U | grep -q .; then
    echo "PATCH DOES NOT APPLY: $PATCH"; exit 2
  fi
  git -C "$WT/repo" reset -q   # keep the merged working tree, drop the index state
fi
export GOFLAGS=-mod=mod GOPROXY=off GOSUMDB=off GOTOOLCHAIN=local
if [ $SUITE -eq 1 ]; then
  (cd "$WT/repo" && go test -vet=off -count=1 ./... 2>&1 | grep -v "gdbm\|no test files" | grep -v "^ok" | head -20)
fi
export VISIM_REPO="$WT/repo" VISIM_BIN="$WT/bin" VISIM_OUT="$WT/out"
mkdir -p "$WT/out"
res=""
for id in "$@"; do
  out="$("$VERIF/check.sh" "$id" "$TIER" 2>&1)"; rc=$?
  line="$(echo "$out" | grep -m1 '^violation class' | cut -c1-260)"
  if [ $rc -eq 1 ]; then res="$res $id:CAUGHT"; echo "  $id CAUGHT: $line"; 
  elif [ $rc -eq 0 ]; then res="$res $id:silent"; echo "  $id silent";
  else res="$res $id:INFRA($rc)"; echo "  $id INFRA rc=$rc: $(echo "$out" | tail -3 | cut -c1-300)"; fi
done
echo "RESULT $(basename "$PATCH"):$res"
