// Package world wires the real go-vise engine to the simulated parties around it:
// clients, external functions, resource tables, state stores, and a gateway that serves
// one request at a time per session with optional restart between requests.
package world

import (
	"bytes"
	"context"
	"fmt"
	"hash/fnv"
	"io"
	"log"
	"runtime/debug"
	"strings"

	"git.defalsify.org/vise.git/cache"
	"git.defalsify.org/vise.git/db"
	"git.defalsify.org/vise.git/engine"
	"git.defalsify.org/vise.git/lang"
	"git.defalsify.org/vise.git/logging"
	"git.defalsify.org/vise.git/persist"
	"git.defalsify.org/vise.git/resource"
	"git.defalsify.org/vise.git/state"

	"visim/app"
	"visim/pgfake"
	"visim/simfs"
)

func init() {
	logging.LogWriter = io.Discard
	log.SetOutput(io.Discard)
}

// ---------------------------------------------------------------------------------------
// recorder

type Event struct {
	Seq  int    `json:"seq"`
	Sess int    `json:"sess"`
	Kind string `json:"kind"`
	Arg  string `json:"arg,omitempty"`
	Res  string `json:"res,omitempty"`
}

type Recorder struct {
	Keep    bool
	Events  []Event
	n       int
	h       uint64
	OnEvent func(sess int, kind string) // scheduler hook (C19)
}

func NewRecorder() *Recorder { return &Recorder{h: 1469598103934665603} }

func (r *Recorder) Add(sess int, kind, arg, res string) {
	r.n++
	f := fnv.New64a()
	var b [8]byte
	for i := 0; i < 8; i++ {
		b[i] = byte(r.h >> (8 * i))
	}
	f.Write(b[:])
	fmt.Fprintf(f, "%d|%s|%s|%s", sess, kind, arg, res)
	r.h = f.Sum64()
	if r.Keep {
		if len(arg) > 80 {
			arg = arg[:80] + "…"
		}
		if len(res) > 80 {
			res = res[:80] + "…"
		}
		r.Events = append(r.Events, Event{r.n, sess, kind, arg, res})
	}
	if r.OnEvent != nil {
		r.OnEvent(sess, kind)
	}
}

func (r *Recorder) Hash() uint64 { return r.h }
func (r *Recorder) Ticks() int   { return r.n }

// ---------------------------------------------------------------------------------------
// configuration

const (
	BackMem = iota
	BackFs
	BackFsBin
	BackPg
)

var BackendNames = []string{"mem", "fs", "fs-binary", "pg"}

type Cfg struct {
	OutputSize      uint32 `json:"output_size"`
	CacheSize       uint32 `json:"cache_size"`
	FlagCount       uint32 `json:"flag_count"`
	Language        string `json:"language,omitempty"`
	MenuSep         string `json:"menu_sep,omitempty"`
	Backend         int    `json:"backend"`
	FinishAlways    bool   `json:"finish_always,omitempty"`     // call Finish also after a failed Exec/Flush
	SetSession      bool   `json:"set_session,omitempty"`       // caller sets the session on the store handle (as examples/http does)
	First           bool   `json:"first,omitempty"`             // every engine is built WithFirst(a benign scripted pre-VM function)
	FirstContent    string `json:"first_content,omitempty"`     // what that function returns ("-" = empty content; unset = "first")
	ResetOnEmpty    bool   `json:"reset_on_empty,omitempty"`    // engine.Config.ResetOnEmptyInput
	FinishLate      bool   `json:"finish_late,omitempty"`       // Finish is called once, when an engine is retired (as engine.Loop's defer), not after every request
	SessionViaStore bool   `json:"session_via_store,omitempty"` // with KeepPersister and SetSession: the session is selected on the store handle, not through the persister
	Debug           bool   `json:"debug,omitempty"`             // every engine has the library's SimpleDebug attached (writing to nowhere)
	KeepPersister   bool   `json:"keep_persister,omitempty"`    // every session keeps its own persist.Persister between requests and selects its session through it (Persister.WithSession) before each request
	SharePersister  bool   `json:"share_persister,omitempty"`   // one persist.Persister (WithFlush) is reused for every engine of every session of the world
}

// ---------------------------------------------------------------------------------------
// external functions

type ExtCall struct {
	Sym   string `json:"sym"`
	K     int    `json:"k"`
	Input string `json:"input"`
	Lang  string `json:"lang,omitempty"`
	Err   bool   `json:"err,omitempty"`
	Out   string `json:"-"`
}

// ---------------------------------------------------------------------------------------
// sessions and steps

type Step struct {
	Input     string   `json:"input"`
	Fresh     bool     `json:"fresh,omitempty"`
	Cont      bool     `json:"cont"`
	ExecErr   string   `json:"exec_err,omitempty"`
	Out       string   `json:"out"`
	FlushErr  string   `json:"flush_err,omitempty"`
	FinishErr string   `json:"finish_err,omitempty"`
	Panic     string   `json:"panic,omitempty"`
	PanicAt   string   `json:"panic_at,omitempty"`
	Flushed   bool     `json:"flushed,omitempty"`
	Finished  bool     `json:"finished,omitempty"`
	Moves     []string `json:"moves,omitempty"` // nodes fetched by GetCode during the request
	Calls     int      `json:"calls,omitempty"` // external calls during the request
	Funcs     int      `json:"funcs,omitempty"` // FuncFor lookups during the request
	Tpls      []string `json:"tpls,omitempty"`  // templates fetched
}

type Sess struct {
	W       *World
	Idx     int
	ID      string
	Calls   map[string]int
	CallLog []ExtCall
	Eng     *engine.DefaultEngine
	Pe      *persist.Persister
	St      *state.State
	Ca      *cache.Cache
	Store   db.Db
	Steps   []Step
	Persist bool // engines are built with a persister
	cur     *Step
	Res     *Res
	// LangSeen records the language observed on every lookup, in order.
	Lookups     []Lookup
	KeepLookups bool
	// FailWriteThisRequest makes the writer handed to Flush fail (fault injection; cleared by Request).
	FailWriteThisRequest bool
	// FailTemplateThisRequest makes every template lookup of the next request fail (fault injection; cleared by Request).
	FailTemplateThisRequest bool
	// FailFirstNext makes the next call of the pre-VM function fail (fault injection); FirstFailed counts them.
	FailFirstNext bool
	FirstFailed   int
	// BlockFirstNext (non-empty) makes the next call of the pre-VM function turn the request away: it
	// returns this text together with TERMINATE (an account that is barred, a service window that is
	// closed). FirstBlocked counts them.
	BlockFirstNext string
	FirstBlocked   int
	// FailLoadThisRequest makes the read of the session record fail once with an I/O-style error when the
	// next engine is built with a persister of its own (fault injection); LoadFailed counts them.
	FailLoadThisRequest bool
	LoadFailed          int
	// Worker selects which of the gateway's workers serves the next request: with the kept-persister
	// policy every worker has a persister of its own for the session
	Worker    int
	keptPe    map[int]*persist.Persister
	keptStore map[int]db.Db
	PosLog    []Pos // position after every request
}

type Pos struct {
	Path   []string
	Idx    uint16
	NCalls int // external calls made so far
}

type Lookup struct {
	Kind string `json:"kind"`
	Sym  string `json:"sym"`
	Lang string `json:"lang"`
}

type World struct {
	App           *app.App
	Cfg           Cfg
	Rec           *Recorder
	Sess          []*Sess
	NewStore      func(s *Sess) (db.Db, error)    // backend factory (fresh handle on the same durable medium)
	Peek          func(s *Sess) (db.Db, error)    // independent handle for observation (does not disturb the session's handle)
	ResFor        func(s *Sess) resource.Resource // optional override of the resource stack
	Disk          *simfs.FS
	Pg            *pgfake.Server
	scratchDirs   []string // directories on the real file system that Close removes
	sharedPe      *persist.Persister
	sharedPeStore db.Db
	// Fired counts the faults that actually reached the library, by kind (evidence only; never feeds a decision).
	Fired map[string]int
}

func New(a *app.App, cfg Cfg) *World {
	return &World{App: a, Cfg: cfg, Rec: NewRecorder(), Fired: map[string]int{}}
}

func (w *World) NewSession(id string, persisted bool) *Sess {
	s := &Sess{W: w, Idx: len(w.Sess), ID: id, Calls: map[string]int{}, Persist: persisted}
	s.Res = &Res{s: s}
	w.Sess = append(w.Sess, s)
	return s
}

// ---------------------------------------------------------------------------------------
// resource seam

type Res struct {
	s *Sess
}

func langFor(code string) (lang.Language, error) { return lang.LanguageFromCode(code) }

func ctxLang(ctx context.Context) string {
	l, ok := lang.LanguageFromContext(ctx)
	if !ok {
		return ""
	}
	return l.Code
}

func (r *Res) look(kind, sym, lg string) {
	if r.s.KeepLookups {
		r.s.Lookups = append(r.s.Lookups, Lookup{kind, sym, lg})
	}
}

func (r *Res) GetTemplate(ctx context.Context, sym string) (string, error) {
	s := r.s
	lg := ctxLang(ctx)
	r.look("template", sym, lg)
	n := s.W.App.Node(sym)
	if n == nil {
		s.W.Rec.Add(s.Idx, "GetTemplate", sym+"/"+lg, "ERR")
		return "", fmt.Errorf("no template for %s", sym)
	}
	if s.FailTemplateThisRequest {
		// injected fault: the template store fails for every lookup of this request
		s.W.Fired["template_lookup_error"]++
		s.W.Rec.Add(s.Idx, "GetTemplate", sym+"/"+lg, "FAULT")
		return "", fmt.Errorf("injected failure of the template lookup")
	}
	if len(n.Tpl) == 0 {
		// a node without any template record (an end node that only says goodbye with its exit value)
		s.W.Rec.Add(s.Idx, "GetTemplate", sym+"/"+lg, "ERR")
		return "", fmt.Errorf("no template for %s", sym)
	}
	tpl, ok := n.Tpl[lg]
	if !ok {
		tpl = n.Tpl[""]
	}
	if s.cur != nil {
		s.cur.Tpls = append(s.cur.Tpls, sym)
	}
	s.W.Rec.Add(s.Idx, "GetTemplate", sym+"/"+lg, "")
	return tpl, nil
}

func (r *Res) GetCode(ctx context.Context, sym string) ([]byte, error) {
	s := r.s
	b, ok := s.W.App.Bytecode(sym)
	if !ok {
		s.W.Rec.Add(s.Idx, "GetCode", sym, "ERR")
		return nil, fmt.Errorf("no code for %s", sym)
	}
	if s.cur != nil {
		s.cur.Moves = append(s.cur.Moves, sym)
	}
	s.W.Rec.Add(s.Idx, "GetCode", sym, "")
	return b, nil
}

func (r *Res) GetMenu(ctx context.Context, sym string) (string, error) {
	s := r.s
	lg := ctxLang(ctx)
	r.look("menu", sym, lg)
	s.W.Rec.Add(s.Idx, "GetMenu", sym+"/"+lg, "")
	m := s.W.App.Labels[sym]
	if m == nil {
		return sym, nil
	}
	if v, ok := m[lg]; ok && lg != "" {
		return v, nil
	}
	if v, ok := m[""]; ok {
		return v, nil
	}
	return sym, nil
}

func (r *Res) FuncFor(ctx context.Context, sym string) (resource.EntryFunc, error) {
	s := r.s
	lg := ctxLang(ctx)
	r.look("funcfor", sym, lg)
	if s.cur != nil {
		s.cur.Funcs++
	}
	e := s.W.App.ExtSym(sym)
	if e == nil {
		s.W.Rec.Add(s.Idx, "FuncFor", sym, "ERR")
		return nil, fmt.Errorf("unknown function: %s", sym)
	}
	s.W.Rec.Add(s.Idx, "FuncFor", sym, "")
	if e.Static != nil {
		// static-load symbol: resolved by language at lookup time, no application code
		c, ok := e.StaticContent(lg)
		if !ok {
			return nil, fmt.Errorf("no static entry for %s", sym)
		}
		return func(ctx context.Context, nodeSym string, input []byte) (resource.Result, error) {
			return resource.Result{Content: c}, nil
		}, nil
	}
	return func(ctx context.Context, nodeSym string, input []byte) (resource.Result, error) {
		return s.callExt(ctx, e, nodeSym, input)
	}, nil
}

func (r *Res) Close(ctx context.Context) error { return nil }

func (s *Sess) callExt(ctx context.Context, e *app.ExtSym, nodeSym string, input []byte) (resource.Result, error) {
	k := s.Calls[e.Name]
	s.Calls[e.Name] = k + 1
	lg := ctxLang(ctx)
	if s.KeepLookups {
		s.Lookups = append(s.Lookups, Lookup{"entry", e.Name, lg})
	}
	b := &e.Script[k%len(e.Script)]
	if s.cur != nil {
		s.cur.Calls++
	}
	s.CallLog = append(s.CallLog, ExtCall{Sym: e.Name, K: k, Input: string(input), Lang: lg, Err: b.Err})
	if b.Err {
		s.W.Rec.Add(s.Idx, "Ext", fmt.Sprintf("%s#%d", e.Name, k), "ERR")
		return resource.Result{Status: b.Status}, fmt.Errorf("scripted failure of %s", e.Name)
	}
	c := app.Content(e.Name, k, app.Digest(input), b)
	res := resource.Result{Content: c, Status: b.Status}
	if len(b.Set) > 0 {
		res.FlagSet = append([]uint32(nil), b.Set...)
	}
	if len(b.Reset) > 0 {
		res.FlagReset = append([]uint32(nil), b.Reset...)
	}
	s.CallLog[len(s.CallLog)-1].Out = c
	s.W.Rec.Add(s.Idx, "Ext", fmt.Sprintf("%s#%d", e.Name, k), fmt.Sprintf("%d", len(c)))
	return res, nil
}

// ---------------------------------------------------------------------------------------
// gateway

// Guard runs f and converts a panic into a message and the function at the top of the stack.
func Guard(f func()) (msg string, at string) {
	defer func() {
		if r := recover(); r != nil {
			msg = fmt.Sprintf("%v", r)
			at = panicSite(string(debug.Stack()))
		}
	}()
	f()
	return "", ""
}

// panicSite extracts the first vise function below the panic from a stack trace.
func panicSite(stack string) string {
	lines := strings.Split(stack, "\n")
	seenPanic := false
	for _, l := range lines {
		if strings.HasPrefix(l, "panic(") {
			seenPanic = true
			continue
		}
		if !seenPanic {
			continue
		}
		if strings.HasPrefix(l, "\t") {
			continue
		}
		if i := strings.Index(l, "git.defalsify.org/vise.git/"); i >= 0 {
			f := l[i+len("git.defalsify.org/vise.git/"):]
			if j := strings.LastIndex(f, "("); j > 0 {
				f = f[:j]
			}
			return f
		}
	}
	return "unknown"
}

func (s *Sess) engineCfg() engine.Config {
	c := s.W.Cfg
	return engine.Config{
		OutputSize:        c.OutputSize,
		SessionId:         s.ID,
		Root:              s.W.App.Root,
		FlagCount:         c.FlagCount,
		CacheSize:         c.CacheSize,
		Language:          c.Language,
		MenuSeparator:     c.MenuSep,
		ResetOnEmptyInput: c.ResetOnEmpty,
	}
}

func (s *Sess) resource() resource.Resource {
	if s.W.ResFor != nil {
		return s.W.ResFor(s)
	}
	return s.Res
}

// firstFunc is the scripted pre-VM function (engine.WithFirst): it only returns a value.
func (s *Sess) firstFunc(ctx context.Context, sym string, input []byte) (resource.Result, error) {
	k := s.Calls["_first"]
	s.Calls["_first"] = k + 1
	if s.cur != nil {
		s.cur.Calls++
	}
	s.CallLog = append(s.CallLog, ExtCall{Sym: "_first", K: k, Input: string(input), Lang: ctxLang(ctx)})
	s.W.Rec.Add(s.Idx, "First", fmt.Sprintf("#%d", k), "")
	if s.FailFirstNext {
		// injected fault: the pre-VM function (typically an account lookup) fails once
		s.FailFirstNext = false
		s.FirstFailed++
		return resource.Result{}, fmt.Errorf("injected failure of the pre-VM function")
	}
	if s.BlockFirstNext != "" {
		c := s.BlockFirstNext
		s.BlockFirstNext = ""
		s.FirstBlocked++
		s.W.Fired["first_func_blocks_request"]++
		return resource.Result{Content: c, FlagSet: []uint32{state.FLAG_TERMINATE}}, nil
	}
	switch s.W.Cfg.FirstContent {
	case "":
		return resource.Result{Content: "first"}, nil // constant: how often an engine is built must not show
	case "-":
		return resource.Result{}, nil
	}
	return resource.Result{Content: s.W.Cfg.FirstContent}, nil
}

// Retire calls Finish on the current engine (gateway policy FinishLate) and drops it.
func (s *Sess) Retire() {
	if s.Eng != nil && s.Persist && s.W.Cfg.FinishLate {
		eng := s.Eng
		Guard(func() { eng.Finish(context.Background()) })
		s.W.Rec.Add(s.Idx, "FinishLate", "", "")
	}
	s.Eng = nil
	s.Pe = nil
}

// build creates a fresh engine (and persister, store handle) for the session.
func (s *Sess) build() error {
	s.Retire()
	if s.Persist {
		if s.W.Cfg.KeepPersister && s.keptPe[s.Worker] != nil && s.keptStore[s.Worker] != nil {
			// a worker that keeps its persister keeps the store handle under it
			s.Store = s.keptStore[s.Worker]
		} else if s.W.NewStore != nil {
			st, err := s.W.NewStore(s)
			if err != nil {
				return err
			}
			s.Store = st
		}
		if s.Store == nil {
			return fmt.Errorf("no store")
		}
		viaPe := s.W.Cfg.KeepPersister && !s.W.Cfg.SessionViaStore
		if s.W.Cfg.SetSession && !viaPe {
			s.Store.SetSession(s.ID)
		}
		if s.W.Cfg.KeepPersister {
			if s.keptPe == nil {
				s.keptPe = map[int]*persist.Persister{}
				s.keptStore = map[int]db.Db{}
			}
			if s.keptPe[s.Worker] == nil || s.keptStore[s.Worker] != s.Store {
				s.keptPe[s.Worker] = persist.NewPersister(s.Store)
				s.keptStore[s.Worker] = s.Store
			}
			s.Pe = s.keptPe[s.Worker]
			if s.W.Cfg.SetSession && viaPe {
				s.Pe.WithSession(s.ID)
			}
		} else if s.W.Cfg.SharePersister {
			// a gateway that keeps one flushing persister over its one store handle
			if s.W.sharedPe == nil || s.W.sharedPeStore != s.Store {
				s.W.sharedPe = persist.NewPersister(s.Store).WithFlush()
				s.W.sharedPeStore = s.Store
			}
			s.Pe = s.W.sharedPe
		} else if s.FailLoadThisRequest {
			s.Pe = persist.NewPersister(&FaultDb{Db: s.Store, S: s})
		} else {
			s.Pe = persist.NewPersister(s.Store)
		}
		s.Eng = engine.NewEngine(s.engineCfg(), s.resource()).WithPersister(s.Pe)
		s.St = nil
		s.Ca = nil
		if s.W.Cfg.First {
			s.Eng = s.Eng.WithFirst(s.firstFunc)
		}
		if s.W.Cfg.Debug {
			s.Eng = s.Eng.WithDebug(engine.NewSimpleDebug(io.Discard))
		}
	} else {
		s.St = state.NewState(s.W.Cfg.FlagCount)
		s.Ca = cache.NewCache()
		if s.W.Cfg.CacheSize > 0 {
			s.Ca = s.Ca.WithCacheSize(s.W.Cfg.CacheSize)
		}
		s.Eng = engine.NewEngine(s.engineCfg(), s.resource()).WithState(s.St).WithMemory(s.Ca)
		if s.W.Cfg.First {
			s.Eng = s.Eng.WithFirst(s.firstFunc)
		}
		if s.W.Cfg.Debug {
			s.Eng = s.Eng.WithDebug(engine.NewSimpleDebug(io.Discard))
		}
	}
	return nil
}

// Rebuild builds a fresh engine for the session without serving a request.
func (s *Sess) Rebuild() error { return s.build() }

// Drop discards the engine; the next request builds everything anew from the store.
func (s *Sess) Drop() { s.Eng = nil; s.Pe = nil }

// Request serves one client request. fresh forces a restart before it.
func (s *Sess) Request(input []byte, fresh bool) *Step {
	if input == nil {
		input = []byte{} // "no input" is the empty input; a nil slice is not something a gateway hands to Exec
	}
	st := Step{Input: string(input)}
	if fresh || s.Eng == nil {
		st.Fresh = true
		var berr error
		msg, at := Guard(func() { berr = s.build() })
		if msg != "" {
			st.Panic, st.PanicAt = msg, "build:"+at
		} else if berr != nil {
			st.ExecErr = "build: " + berr.Error()
		}
		if st.Panic != "" || berr != nil {
			s.Steps = append(s.Steps, st)
			s.PosLog = append(s.PosLog, Pos{})
			return &s.Steps[len(s.Steps)-1]
		}
	}
	s.cur = &st
	ctx := context.Background()
	ncBefore := len(s.CallLog)
	browseSel := false
	if pp, _ := s.Position(); len(pp) > 0 && s.W.App != nil && len(input) > 0 {
		if n := s.W.App.Node(pp[len(pp)-1]); n != nil {
			for _, in := range n.Code {
				if (in.Op == app.MNEXT || in.Op == app.MPREV) && in.B == string(input) {
					browseSel = true
				}
			}
		}
	}
	defer func() {
		for _, cl := range s.CallLog[ncBefore:] {
			x := s.W.App.ExtSym(cl.Sym)
			switch {
			case cl.Err:
				s.W.Fired["ext_error"]++
			case x != nil && x.Size > 0 && len(cl.Out) > int(x.Size):
				s.W.Fired["ext_oversize"]++
			case cl.Out == "" && cl.Sym != "_first":
				s.W.Fired["ext_empty"]++
			}
		}
		if browseSel {
			// a browse selector that could not be served: beyond either end of the pages
			pp, _ := s.Position()
			if st.FlushErr != "" || st.ExecErr != "" || (len(pp) > 0 && pp[len(pp)-1] == "_catch") {
				s.W.Fired["client_browse_oob"]++
			}
		}
	}()
	s.W.Rec.Add(s.Idx, "Exec", string(input), "")
	var cont bool
	var err error
	msg, at := Guard(func() { cont, err = s.Eng.Exec(ctx, input) })
	if msg != "" {
		st.Panic, st.PanicAt = msg, "Exec:"+at
	}
	st.Cont = cont
	if err != nil {
		st.ExecErr = err.Error()
	}
	okSoFar := st.Panic == "" && err == nil
	if okSoFar {
		var buf bytes.Buffer
		var ferr error
		var wr io.Writer = &buf
		if s.FailWriteThisRequest {
			// injected fault: the connection to the client is gone when the page is written
			wr = failingWriter{}
			s.W.Fired["client_write_error"]++
			s.W.Rec.Add(s.Idx, "Write", "", "FAULT")
		}
		msg, at = Guard(func() { _, ferr = s.Eng.Flush(ctx, wr) })
		st.Flushed = true
		if msg != "" {
			st.Panic, st.PanicAt = msg, "Flush:"+at
			okSoFar = false
		}
		if ferr != nil {
			st.FlushErr = ferr.Error()
			okSoFar = false
		}
		st.Out = buf.String()
	}
	if s.Pe != nil {
		// observation handles
		s.St = s.Pe.GetState()
		if c, ok := s.Pe.GetMemory().(*cache.Cache); ok {
			s.Ca = c
		}
	}
	if s.Persist && !s.W.Cfg.FinishLate && st.Panic == "" && (okSoFar || s.W.Cfg.FinishAlways) {
		var ferr error
		msg, at = Guard(func() { ferr = s.Eng.Finish(ctx) })
		st.Finished = true
		if msg != "" {
			st.Panic, st.PanicAt = msg, "Finish:"+at
		}
		if ferr != nil {
			st.FinishErr = ferr.Error()
		}
	}
	if s.W.Cfg.SharePersister && s.W.sharedPe != nil && (st.Panic != "" || st.FinishErr != "" || !st.Finished) {
		// Finish was not called or failed (or the library panicked): the persister was not flushed and a
		// gateway that reuses it has to drop its content itself. After a Finish that returned no error
		// - whatever Exec and Flush had answered - the persister must be clean
		s.W.sharedPe.WithContent(nil, nil)
		s.W.Rec.Add(s.Idx, "DropPersisterContent", "", "")
	}
	res := "ok"
	if st.ExecErr != "" {
		res = "execerr"
	} else if st.FlushErr != "" {
		res = "flusherr"
	}
	if st.Panic != "" {
		res = "panic"
	}
	s.W.Rec.Add(s.Idx, "Done", fmt.Sprintf("cont=%v %s", st.Cont, res), st.Out)
	s.cur = nil
	s.FailTemplateThisRequest = false
	s.FailWriteThisRequest = false
	s.FailLoadThisRequest = false
	s.Steps = append(s.Steps, st)
	pp, pi := s.Position()
	s.PosLog = append(s.PosLog, Pos{pp, pi, len(s.CallLog)})
	return &s.Steps[len(s.Steps)-1]
}

// Position returns the navigation path and page index as the library reports them.
func (s *Sess) Position() ([]string, uint16) {
	if s.St == nil {
		return nil, 0
	}
	return append([]string(nil), s.St.ExecPath...), s.St.SizeIdx
}

// failingWriter is a client connection that is gone.
type failingWriter struct{}

func (failingWriter) Write(p []byte) (int, error) {
	return 0, fmt.Errorf("injected failure of the client connection")
}
