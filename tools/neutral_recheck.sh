#!/bin/bash
# Re-applies every stored behaviour-preserving change (neutral/<name>/patch.diff and
# mutants/N*.patch) to the current /repo HEAD and runs ALL checks: every one must stay silent.
# Patches that no longer apply to HEAD (later repairs touched the same lines) are reported as such.
VERIF="$(cd "$(dirname "$0")/.." && pwd)"
CHECKS="C01 C02 C03 C04 C05 C06 C07 C08 C09 C10 C11 C12 C13 C15 C17 C18 C19 C20"
for p in "$VERIF"/neutral/*/patch.diff "$VERIF"/mutants/N*.patch; do
  n="$(basename "$(dirname "$p")")"; [ "$n" = "mutants" ] && n="$(basename "$p" .patch)"
  if grep -q '"status_at_final_state": "superseded' "$(dirname "$p")/meta.json" 2>/dev/null; then echo "$n: superseded (see meta.json)"; continue; fi
  out="$("$VERIF/tools/mutant.sh" "$p" $CHECKS 2>&1)"
  if echo "$out" | grep -q 'PATCH DOES NOT APPLY'; then echo "$n: DOES NOT APPLY to HEAD any more (not even by three-way merge)"; continue; fi
  res="$(echo "$out" | grep '^RESULT')"
  bad="$(echo "$res" | grep -o 'C[0-9][0-9]:\(CAUGHT\|INFRA([0-9]*)\)' | tr '\n' ' ')"
  if [ -n "$bad" ]; then echo "$n: NOT SILENT: $bad"; else echo "$n: all silent"; fi
done
