// Package checks holds one simulation per property.
package checks

import (
	"fmt"
	"hash/fnv"
	"sort"
	"strings"

	"visim/app"
	"visim/core"
	"visim/tape"
	"visim/world"
)

var realAll = []string{"engine", "vm", "render", "state", "cache", "persist", "resource", "db", "db/mem", "lang"}
var stubAll = []string{"client (seeded input generator)", "external functions (scripted)", "application tables (generated IR encoded by an independent encoder)"}

func h64(parts ...interface{}) uint64 {
	h := fnv.New64a()
	for _, p := range parts {
		fmt.Fprintf(h, "%v|", p)
	}
	return h.Sum64()
}

// fullProfile is the general-purpose application profile used by the twin checks.
func fullProfile(t *tape.Tape, flagCount uint32) app.Profile {
	p := fullProfile0(t, flagCount)
	if p.ExtLang {
		p.Translations = true // a language switch is only visible where translations exist
	}
	return p
}

func fullProfile0(t *tape.Tape, flagCount uint32) app.Profile {
	return app.Profile{
		MaxNodes: 6, MaxExt: 4, FlagCount: flagCount,
		Sinks: true, MSink: true, Menus: true, Browse: true,
		Catch: true, Croak: t.Chance(1, 4), ExtFlags: true,
		ExtErrPct: []int{0, 5, 15}[t.Int(3)], OversizePct: []int{0, 0, 3}[t.Int(3)], EmptyPct: 5,
		RelTargets: true, EndNodes: t.Chance(1, 2), Translations: t.Chance(1, 3),
		MultiRowTpl: true, MaxRows: 10, EmptyRows: t.Chance(1, 2), CatchShape: -1,
		ExtLang: t.Chance(1, 4),
		Unicode: t.Chance(1, 3),
		ManySyms: t.Chance(1, 25),
		CatchLoad: t.Chance(1, 3),
		Refresh: t.Chance(1, 3),
		FallMove: t.Chance(1, 4),
	}
}

func genCfg(t *tape.Tape) world.Cfg {
	t.Begin("cfg")
	defer t.End()
	c := world.Cfg{}
	switch t.Weighted(6, 12, 3, 1) {
	case 0:
		c.OutputSize = 0
	case 1:
		c.OutputSize = uint32(t.Range(70, 250))
	case 2:
		c.OutputSize = uint32(t.Range(25, 70))
	case 3:
		c.OutputSize = uint32(t.Range(1, 25))
	}
	switch t.Weighted(8, 1, 3) {
	case 0:
		c.CacheSize = 0
	case 1:
		c.CacheSize = uint32(t.Range(10, 200))
	case 2:
		c.CacheSize = uint32(t.Range(200, 100000))
	}
	c.FlagCount = uint32([]int{0, 1, 3, 8, 9, 40, 300}[t.Weighted(4, 4, 4, 4, 4, 4, 1)])
	c.MenuSep = []string{"", ". ", ")", " - ", " · ", "→"}[t.Weighted(6, 2, 2, 2, 1, 1)]
	c.Language = []string{"", "", "nor", "eng"}[t.Int(4)]
	return c
}

var junkInputs = [][]byte{
	{}, []byte(" "), []byte("\n"), []byte("*"), []byte("_"), []byte("<"), []byte(">"), []byte("^"), []byte("."),
	[]byte("\x00"), []byte("\xff\xfe"), []byte("-1"), []byte("1\n2"), []byte("@root|$"), []byte("{{.x}}"),
	[]byte(strings.Repeat("9", 255)), []byte(strings.Repeat("9", 256)), []byte(strings.Repeat("z", 300)),
	[]byte("+"), []byte("+254712345678"), []byte("0"), []byte("00"), []byte("a b"), []byte("1 "),
	// accepted by the input format and meaningful to a text/template parser, printf or a shell
	[]byte("1{{"), []byte("9{{.x}}"), []byte("a}}"), []byte("0{{printf \"%d\" 1}}"), []byte("1%s%d"), []byte("2'\"`"), []byte("1\r"), []byte("3{{/*"),
}

// genInput draws the next client input. cur is the node the session is believed to be on.
func genInput(t *tape.Tape, a *app.App, cur string, junkW int) []byte {
	t.Begin("input")
	defer t.End()
	var sels []string
	if n := a.Node(cur); n != nil {
		sels = n.Selectors()
		for _, in := range n.Code {
			if in.Op == app.MNEXT || in.Op == app.MPREV {
				sels = append(sels, in.B)
			}
		}
	}
	selW := 12
	if len(sels) == 0 {
		selW = 0
	}
	all := a.AllSelectors()
	allW := 3
	if len(all) == 0 {
		allW = 0
	}
	switch t.Weighted(selW, allW, 3, junkW, 1) {
	case 0:
		s := sels[t.Int(len(sels))]
		if s == "*" {
			return []byte([]string{"x", "7", "hello", "0"}[t.Int(4)])
		}
		return []byte(s)
	case 1:
		return []byte(all[t.Int(len(all))])
	case 2:
		return []byte([]string{"1", "0", "x", "77", "hello world", "2", "11", "22"}[t.Int(8)])
	case 3:
		return junkInputs[t.Int(len(junkInputs))]
	default:
		// arbitrary bytes
		n := t.Range(0, 12)
		b := make([]byte, n)
		for i := range b {
			b[i] = byte(t.Int(256))
		}
		return b
	}
}

func isValidInputFormat(in []byte) bool {
	// mirrors nothing: used only to pick labels in evidence; the engine decides what it refuses
	return len(in) > 0
}

// stateHash abstracts a session's state for the distinct-states measure.
func stateHash(s *world.Sess) uint64 {
	if s.St == nil {
		return 0
	}
	path, idx := s.Position()
	var keys []string
	if s.Ca != nil {
		for l, m := range s.Ca.Cache {
			for k, v := range m {
				keys = append(keys, fmt.Sprintf("%d:%s:%d", l, k, len(v)))
			}
		}
		sort.Strings(keys)
	}
	return h64(strings.Join(path, "/"), idx, fmt.Sprintf("%x", s.St.Flags), strings.Join(keys, ","), h64(string(s.St.Code)))
}

func errClass(e string) string {
	if e == "" {
		return ""
	}
	return "err"
}

func scenario(w *world.World, extra map[string]interface{}) map[string]interface{} {
	m := map[string]interface{}{
		"config": w.Cfg,
		"app":    w.App.Text(),
	}
	var ss []interface{}
	for _, s := range w.Sess {
		ss = append(ss, map[string]interface{}{"id": s.ID, "persisted": s.Persist, "steps": s.Steps})
	}
	m["sessions"] = ss
	for k, v := range extra {
		m[k] = v
	}
	return m
}

func finish(o *core.Outcome, ws ...*world.World) *core.Outcome {
	var h uint64 = 1
	fired := map[string]int{}
	for _, w := range ws {
		h = h64(h, w.Rec.Hash())
		o.Counts["sim_ticks"] += w.Rec.Ticks()
		for k, v := range w.Fired {
			fired[k] += v
		}
	}
	// fault kinds the check did not count itself are taken from what the worlds saw reach the library
	for k, v := range fired {
		if o.Faults[k] == 0 {
			o.Faults[k] = v
		}
	}
	o.TraceHash = h
	return o
}

func short(s string) string {
	if len(s) > 120 {
		return fmt.Sprintf("%q…(%d bytes)", s[:120], len(s))
	}
	return fmt.Sprintf("%q", s)
}

// errKey abbreviates an error message to a stable key for probe counters (digits removed).
func errKey(e string) string {
	var sb strings.Builder
	for _, r := range e {
		if r >= '0' && r <= '9' {
			continue
		}
		sb.WriteRune(r)
		if sb.Len() >= 40 {
			break
		}
	}
	return sb.String()
}

// deepApp is a well-formed application whose two inner nodes descend into each other, so that
// a client can make the navigation stack as deep as it likes: "1" descends, "0" ascends,
// "9" rewinds, "5" repeats the node. withLoad puts a small loaded value on every level.
func deepApp(t *tape.Tape) *app.App {
	t.Begin("deepapp")
	defer t.End()
	a := &app.App{Root: "root", Labels: map[string]map[string]string{}}
	withLoad := t.Chance(1, 2)
	pre := func(name string) ([]app.Inst, string) {
		tpl := "@" + name + "|deep"
		var code []app.Inst
		if withLoad {
			code = append(code, app.Inst{Op: app.LOAD, A: "dv", N: 8}, app.Inst{Op: app.MAP, A: "dv"})
			tpl += " dv=[{{.dv}}]"
		}
		return append(code, app.Inst{Op: app.HALT}), tpl + "$"
	}
	if withLoad {
		a.Ext = append(a.Ext, &app.ExtSym{Name: "dv", Size: 8, Script: []app.ExtBehav{{Len: -1}}})
	}
	for _, n := range []struct{ name, down string }{{"root", "na"}, {"na", "nb"}, {"nb", "na"}} {
		code, tpl := pre(n.name)
		code = append(code, app.Inst{Op: app.INCMP, A: n.down, B: "1"})
		if n.name != "root" {
			code = append(code, app.Inst{Op: app.INCMP, A: "_", B: "0"}, app.Inst{Op: app.INCMP, A: "^", B: "9"})
		}
		code = append(code, app.Inst{Op: app.INCMP, A: ".", B: "5"})
		a.Nodes = append(a.Nodes, &app.Node{Name: n.name, Kind: app.KMenu, Code: code, Tpl: map[string]string{"": tpl}})
	}
	c := &app.Node{Name: "_catch", Kind: app.KCatch, Tpl: map[string]string{"": "@_catch|oops$"}}
	c.Code = [][]app.Inst{
		{{Op: app.HALT}, {Op: app.MOVE, A: "_"}},
		{{Op: app.HALT}, {Op: app.INCMP, A: "_", B: "*"}},
	}[t.Int(2)]
	a.Nodes = append(a.Nodes, c)
	a.Index()
	return a
}

// twoRolesApp: one symbol that is a paginated sink in one node and an ordinary sized value in a
// sibling node (selectors: 1 -> the sink node, 2 -> the value node, 0 -> back).
func twoRolesApp(t *tape.Tape) *app.App {
	t.Begin("tworoles")
	defer t.End()
	a := &app.App{Root: "root", Labels: map[string]map[string]string{}}
	rows := []int{t.Range(1, 6), t.Range(1, 6), t.Range(1, 6)}
	if t.Chance(1, 2) {
		rows = append(rows, t.Range(1, 12), t.Range(1, 12))
	}
	a.Ext = append(a.Ext, &app.ExtSym{Name: "sx", Size: 0, Script: []app.ExtBehav{{Sink: true, Rows: rows}}})
	a.Nodes = append(a.Nodes, &app.Node{Name: "root", Kind: app.KMenu, Tpl: map[string]string{"": "@root|pick$"}, Code: []app.Inst{
		{Op: app.MOUT, A: "la", B: "1"}, {Op: app.MOUT, A: "lb", B: "2"}, {Op: app.HALT},
		{Op: app.INCMP, A: "na", B: "1"}, {Op: app.INCMP, A: "nb", B: "2"}}})
	sink := []app.Inst{{Op: app.LOAD, A: "sx", N: 0}, {Op: app.MAP, A: "sx"}, {Op: app.MOUT, A: "lc", B: "0"}, {Op: app.MNEXT, A: "ld", B: "11"}, {Op: app.MPREV, A: "le", B: "22"},
		{Op: app.HALT}, {Op: app.INCMP, A: "_", B: "0"}, {Op: app.INCMP, A: ">", B: "11"}, {Op: app.INCMP, A: "<", B: "22"}}
	if t.Chance(1, 2) {
		sink[1] = app.Inst{Op: app.RELOAD, A: "sx"}
	}
	a.Nodes = append(a.Nodes, &app.Node{Name: "na", Kind: app.KMenu, Tpl: map[string]string{"": "@na| S<<{{.sx}}>>$"}, Code: sink})
	a.Nodes = append(a.Nodes, &app.Node{Name: "nb", Kind: app.KMenu, Tpl: map[string]string{"": "@nb| sx=[{{.sx}}]$"}, Code: []app.Inst{
		{Op: app.LOAD, A: "sx", N: 400}, {Op: app.MAP, A: "sx"}, {Op: app.MOUT, A: "lc", B: "0"}, {Op: app.HALT}, {Op: app.INCMP, A: "_", B: "0"}}})
	a.Nodes = append(a.Nodes, &app.Node{Name: "_catch", Kind: app.KCatch, Tpl: map[string]string{"": "@_catch|oops$"}, Code: []app.Inst{{Op: app.HALT}, {Op: app.MOVE, A: "_"}}})
	a.Index()
	return a
}

// langPagedApp: a paginated node whose browse labels are translated to something much longer, and a
// node that switches the language (selectors: 1 -> the paginated node, 2 -> the switch, 0 -> back,
// 11/22 -> next/previous).
func langPagedApp(t *tape.Tape) *app.App {
	t.Begin("langpaged")
	defer t.End()
	a := &app.App{Root: "root", Labels: map[string]map[string]string{}, Langs: []string{"nor"}}
	rows := make([]int, t.Range(6, 14))
	for i := range rows {
		rows[i] = t.Range(2, 9)
	}
	a.Ext = append(a.Ext,
		&app.ExtSym{Name: "sx", Size: 0, Script: []app.ExtBehav{{Sink: true, Rows: rows}}},
		&app.ExtSym{Name: "sl", Size: 8, Script: []app.ExtBehav{{Len: -1, Lang: "nor", Set: []uint32{7}}}}) // 7 = LANG
	a.Labels["ln"] = map[string]string{"": "nx", "nor": []string{"neste side ", "neste"}[t.Int(2)] + strings.Repeat("e", t.Range(0, 12))}
	a.Labels["lp"] = map[string]string{"": "pv", "nor": []string{"forrige side ", "forr"}[t.Int(2)] + strings.Repeat("e", t.Range(0, 12))}
	// in half the runs every node carries the same two browse lines (an author's boilerplate): the browse
	// settings are then the same from node to node, also across the node that switches the language
	everywhere := t.Chance(1, 2)
	a.Nodes = append(a.Nodes, &app.Node{Name: "root", Kind: app.KMenu, Tpl: map[string]string{"": "@root|pick$", "nor": "@root~nor|velg$"}, Code: []app.Inst{
		{Op: app.MOUT, A: "la", B: "1"}, {Op: app.MOUT, A: "lb", B: "2"}, {Op: app.HALT},
		{Op: app.INCMP, A: "np", B: "1"}, {Op: app.INCMP, A: "nl", B: "2"}}})
	a.Nodes = append(a.Nodes, &app.Node{Name: "np", Kind: app.KMenu, Tpl: map[string]string{"": "@np| S<<{{.sx}}>>$"}, Code: []app.Inst{
		{Op: app.LOAD, A: "sx", N: 0}, {Op: app.MAP, A: "sx"}, {Op: app.MOUT, A: "lc", B: "0"}, {Op: app.MNEXT, A: "ln", B: "11"}, {Op: app.MPREV, A: "lp", B: "22"},
		{Op: app.HALT}, {Op: app.INCMP, A: "_", B: "0"}, {Op: app.INCMP, A: ">", B: "11"}, {Op: app.INCMP, A: "<", B: "22"}}})
	a.Nodes = append(a.Nodes, &app.Node{Name: "nl", Kind: app.KMenu, Tpl: map[string]string{"": "@nl|switched$", "nor": "@nl~nor|byttet$"}, Code: []app.Inst{
		{Op: app.LOAD, A: "sl", N: 8}, {Op: app.MOUT, A: "lc", B: "0"}, {Op: app.HALT}, {Op: app.INCMP, A: "_", B: "0"}}})
	a.Nodes = append(a.Nodes, &app.Node{Name: "_catch", Kind: app.KCatch, Tpl: map[string]string{"": "@_catch|oops$"}, Code: []app.Inst{{Op: app.HALT}, {Op: app.MOVE, A: "_"}}})
	if everywhere {
		for _, n := range a.Nodes {
			if n.Name == "root" || n.Name == "nl" {
				n.Code = append([]app.Inst{{Op: app.MNEXT, A: "ln", B: "11"}, {Op: app.MPREV, A: "lp", B: "22"}}, n.Code...)
			}
		}
	}
	a.Index()
	return a
}

// deepEndApp is deepApp (with a loaded value on every level) plus an end node reachable from every
// level with selector "7": a session can end gracefully at any depth.
func deepEndApp(t *tape.Tape) *app.App {
	a := deepApp(t)
	hasLoad := len(a.Ext) > 0
	if !hasLoad {
		a.Ext = append(a.Ext, &app.ExtSym{Name: "dv", Size: 8, Script: []app.ExtBehav{{Len: -1}}})
	}
	for _, n := range a.Nodes {
		if n.Name == "_catch" {
			continue
		}
		if !hasLoad {
			// a loaded value on every level, so that a restart over stale scopes shows
			n.Code = append([]app.Inst{{Op: app.LOAD, A: "dv", N: 8}, {Op: app.MAP, A: "dv"}}, n.Code...)
			n.Tpl[""] = strings.TrimSuffix(n.Tpl[""], "$") + " dv=[{{.dv}}]$"
		}
		n.Code = append(n.Code, app.Inst{Op: app.INCMP, A: "nend", B: "7"})
	}
	a.Nodes = append(a.Nodes, &app.Node{Name: "nend", Kind: app.KEndGraceful, Code: []app.Inst{{Op: app.HALT}}, Tpl: map[string]string{"": "@nend|bye$"}})
	a.Index()
	return a
}

// bigRecordApp: two nodes that each load a value of tens of kilobytes (within a 65535-byte limit, not
// shown on the page), so that the saved session is a record of more than 64 KiB once both are held
// (selectors: 1 -> deeper, 0 -> back).
func bigRecordApp(t *tape.Tape) *app.App {
	t.Begin("bigrecord")
	defer t.End()
	a := &app.App{Root: "root", Labels: map[string]map[string]string{}}
	la, lb := t.Range(30000, 65535), t.Range(36000, 65535)
	a.Ext = append(a.Ext,
		&app.ExtSym{Name: "sa", Size: 65535, Script: []app.ExtBehav{{Len: la}}},
		&app.ExtSym{Name: "sb", Size: 65535, Script: []app.ExtBehav{{Len: lb}}})
	a.Nodes = append(a.Nodes, &app.Node{Name: "root", Kind: app.KMenu, Tpl: map[string]string{"": "@root|pick$"}, Code: []app.Inst{
		{Op: app.LOAD, A: "sa", N: 65535}, {Op: app.MOUT, A: "la", B: "1"}, {Op: app.HALT}, {Op: app.INCMP, A: "nb", B: "1"}}})
	a.Nodes = append(a.Nodes, &app.Node{Name: "nb", Kind: app.KMenu, Tpl: map[string]string{"": "@nb|deeper$"}, Code: []app.Inst{
		{Op: app.LOAD, A: "sb", N: 65535}, {Op: app.MOUT, A: "lc", B: "0"}, {Op: app.MOUT, A: "la", B: "1"}, {Op: app.HALT},
		{Op: app.INCMP, A: "_", B: "0"}, {Op: app.INCMP, A: "nc", B: "1"}}})
	a.Nodes = append(a.Nodes, &app.Node{Name: "nc", Kind: app.KMenu, Tpl: map[string]string{"": "@nc|deepest$"}, Code: []app.Inst{
		{Op: app.MOUT, A: "lc", B: "0"}, {Op: app.HALT}, {Op: app.INCMP, A: "_", B: "0"}}})
	a.Nodes = append(a.Nodes, &app.Node{Name: "_catch", Kind: app.KCatch, Tpl: map[string]string{"": "@_catch|oops$"}, Code: []app.Inst{{Op: app.HALT}, {Op: app.MOVE, A: "_"}}})
	a.Index()
	return a
}
