#!/bin/bash
# Offline setup: builds the simulator once (warms the Go build cache).
set -eu
cd "$(dirname "$0")"
./build.sh all
echo setup ok
