#!/bin/bash
# Runs every patch in /verif/mutants against the checks named in its .checks file.
VERIF="$(cd "$(dirname "$0")/.." && pwd)"
for p in "$VERIF"/mutants/${1:-*}.patch; do
  n="$(basename "$p" .patch)"
  checks="$(cat "$VERIF/mutants/$n.checks" 2>/dev/null)"
  [ -n "$checks" ] || continue
  "$VERIF/tools/mutant.sh" -s "$p" $checks 2>&1 | grep -v "^  .* silent$\|^  .* CAUGHT" | tail -4
done
