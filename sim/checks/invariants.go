package checks

import (
	"context"
	"fmt"
	"sort"

	"git.defalsify.org/vise.git/cache"
	memdb "git.defalsify.org/vise.git/db/mem"
	"git.defalsify.org/vise.git/persist"
	"git.defalsify.org/vise.git/state"

	"visim/world"
)

// consistency checks the internal consistency clauses of C08 on a session's state objects.
// It returns "" when consistent.
func consistency(st *state.State, ca *cache.Cache) (class string, msg string) {
	if st == nil || ca == nil {
		return "", ""
	}
	if int(ca.Levels()) != len(st.ExecPath)+1 {
		return "scope-level-mismatch", fmt.Sprintf("cache has %d scopes but the navigation stack has %d levels (%v); expected scopes = levels+1", ca.Levels(), len(st.ExecPath), st.ExecPath)
	}
	var sum uint32
	seen := map[string]int{}
	for l, m := range ca.Cache {
		for k, v := range m {
			sum += uint32(len(v))
			if prev, ok := seen[k]; ok {
				return "symbol-in-two-scopes", fmt.Sprintf("symbol %s defined in scopes %d and %d", k, prev, l)
			}
			seen[k] = l
			if _, ok := ca.Sizes[k]; !ok {
				return "symbol-without-size", fmt.Sprintf("symbol %s in scope %d has no size entry", k, l)
			}
		}
	}
	if sum != ca.CacheUseSize {
		return "cache-accounting", fmt.Sprintf("CacheUseSize=%d but stored values sum to %d", ca.CacheUseSize, sum)
	}
	return "", ""
}

// snapshot serialises the session state the way a Finish would, without touching the session's store.
func snapshot(st *state.State, ca *cache.Cache) (b []byte, panicMsg, panicAt string, err error) {
	store := memdb.NewMemDb()
	store.Connect(context.Background(), "")
	pe := persist.NewPersister(store).WithContent(st, ca)
	panicMsg, panicAt = world.Guard(func() { b, err = pe.Serialize() })
	return
}

// restore loads snapshot bytes into fresh objects.
func restore(b []byte) (st *state.State, ca *cache.Cache, panicMsg, panicAt string, err error) {
	store := memdb.NewMemDb()
	store.Connect(context.Background(), "")
	pe := persist.NewPersister(store)
	panicMsg, panicAt = world.Guard(func() { err = pe.Deserialize(b) })
	if panicMsg == "" && err == nil {
		st = pe.GetState()
		ca, _ = pe.GetMemory().(*cache.Cache)
	}
	return
}

// snapKey renders the persisted part of a session for comparison (decoded, order-stable).
func snapKey(st *state.State, ca *cache.Cache) string {
	if st == nil || ca == nil {
		return "<nil>"
	}
	lang := ""
	if st.Language != nil {
		lang = st.Language.Code
	}
	var lv []string
	for l, m := range ca.Cache {
		var ks []string
		for k, v := range m {
			ks = append(ks, fmt.Sprintf("%s=%q", k, v))
		}
		sort.Strings(ks)
		lv = append(lv, fmt.Sprintf("%d:%v", l, ks))
	}
	var sz []string
	for k, v := range ca.Sizes {
		sz = append(sz, fmt.Sprintf("%s:%d", k, v))
	}
	sort.Strings(sz)
	return fmt.Sprintf("path=%v idx=%d flags=%x bits=%d moves=%d lang=%s code=%x | use=%d cap=%d levels=%v sizes=%v last=%q",
		st.ExecPath, st.SizeIdx, st.Flags, st.BitSize, st.Moves, lang, st.Code, ca.CacheUseSize, ca.CacheSize, lv, sz, ca.LastValue)
}
