package world

import (
	"context"
	"fmt"
	"os"
	"path/filepath"
	"sort"
	"strings"

	"git.defalsify.org/vise.git/resource"
)

// PoDefaultLanguage is the language the default entries of an application stand for when it is
// served through the library's gettext resource.
const PoDefaultLanguage = "eng"

func poQuote(s string) string {
	r := strings.NewReplacer("\\", "\\\\", "\"", "\\\"", "\n", "\\n", "\t", "\\t", "\r", "\\r")
	return "\"" + r.Replace(s) + "\""
}

func writePo(path string, entries map[string]string) error {
	var sb strings.Builder
	sb.WriteString("msgid \"\"\nmsgstr \"\"\n\"Content-Type: text/plain; charset=UTF-8\\n\"\n\n")
	keys := make([]string, 0, len(entries))
	for k := range entries {
		keys = append(keys, k)
	}
	sort.Strings(keys)
	for _, k := range keys {
		if k == "" {
			continue
		}
		fmt.Fprintf(&sb, "msgid %s\nmsgstr %s\n\n", poQuote(k), poQuote(entries[k]))
	}
	if err := os.MkdirAll(filepath.Dir(path), 0700); err != nil {
		return err
	}
	return os.WriteFile(path, []byte(sb.String()), 0600)
}

// UsePoResource serves templates and menu labels of the application through the library's
// gettext resource (resource.PoResource) from .po files written to a scratch directory on the
// real file system (the gettext library reads them itself; the directory is removed by Close).
// Default entries become the entries of PoDefaultLanguage, translations are keyed by the default
// text, as gettext does. Code and external functions come from the harness as usual.
func (w *World) UsePoResource() error {
	for _, e := range w.App.Ext {
		if e.Static != nil {
			return fmt.Errorf("static-load symbols are not served by the gettext resource")
		}
	}
	dir, err := os.MkdirTemp("", "visim-po-")
	if err != nil {
		return err
	}
	w.scratchDirs = append(w.scratchDirs, dir)
	tplKey, menuKey := map[string]string{}, map[string]string{}
	perLang := map[string]map[string]string{}
	add := func(lg, msgid, msgstr string) {
		if perLang[lg] == nil {
			perLang[lg] = map[string]string{}
		}
		perLang[lg][msgid] = msgstr
	}
	for _, n := range w.App.Nodes {
		def, ok := n.Tpl[""]
		if !ok {
			continue
		}
		tplKey[n.Name] = def
		for lg, txt := range n.Tpl {
			if lg != "" {
				add(lg, def, txt)
			}
		}
	}
	for label, m := range w.App.Labels {
		def, ok := m[""]
		if !ok {
			def = label // a label without a default entry resolves to itself
		} else {
			menuKey[label] = def
		}
		for lg, txt := range m {
			if lg != "" {
				add(lg, def, txt)
			}
		}
	}
	if err := writePo(filepath.Join(dir, PoDefaultLanguage, "x-vise.po"), tplKey); err != nil {
		return err
	}
	if err := writePo(filepath.Join(dir, PoDefaultLanguage, "x-vise_menu.po"), menuKey); err != nil {
		return err
	}
	var langs []string
	for lg, m := range perLang {
		if err := writePo(filepath.Join(dir, lg, "default.po"), m); err != nil {
			return err
		}
		langs = append(langs, lg)
	}
	sort.Strings(langs)
	defLang, err := langFor(PoDefaultLanguage)
	if err != nil {
		return err
	}
	w.ResFor = func(s *Sess) resource.Resource {
		rs := resource.NewPoResource(defLang, dir)
		for _, lg := range langs {
			if l, err := langFor(lg); err == nil {
				rs = rs.WithLanguage(l)
			}
		}
		rs.WithCodeGetter(s.Res.GetCode)
		for _, e := range w.App.Ext {
			e := e
			rs.AddLocalFunc(e.Name, func(ctx context.Context, nodeSym string, input []byte) (resource.Result, error) {
				if s.cur != nil {
					s.cur.Funcs++
				}
				return s.callExt(ctx, e, nodeSym, input)
			})
		}
		return rs
	}
	return nil
}
