package checks

import (
	"fmt"
	"sort"
	"strings"

	"visim/app"
	"visim/refvm"
	"visim/world"
)

// modelRun drives one session of the real engine and the reference model in lock-step.
type modelRun struct {
	w *world.World
	s *world.Sess
	m *refvm.State
}

func newModelRun(a *app.App, cfg world.Cfg, persisted bool) *modelRun {
	w := world.New(a, cfg)
	w.UseBackend()
	s := w.NewSession("sess", persisted)
	m := refvm.New(a, refvm.Cfg{FlagCount: cfg.FlagCount, CacheSize: cfg.CacheSize, Language: cfg.Language})
	return &modelRun{w: w, s: s, m: m}
}

type reqObs struct {
	st      *world.Step
	exp     *refvm.Expect
	refused bool
	panic   bool
	// agreement of the projections (only meaningful when !exp.Skip && !refused)
	pathAgree  bool
	idxAgree   bool
	movesAgree bool
	callsAgree bool
	browseOOR  bool // a lateral move went beyond the pages; the render moved to the catch node or failed
	actPath    []string
	actIdx     uint16
	page       app.Page
}

func (r *modelRun) curNode() string {
	if p, _ := r.s.Position(); len(p) > 0 {
		return p[len(p)-1]
	}
	return ""
}

func (r *modelRun) request(input []byte, fresh bool) *reqObs {
	ncalls := len(r.s.CallLog)
	var movesBefore uint32
	haveBefore := false
	if r.s.St != nil {
		movesBefore, haveBefore = r.s.St.Moves, true
	}
	st := r.s.Request(input, fresh)
	o := &reqObs{st: st}
	if st.Panic != "" {
		o.panic = true
		return o
	}
	o.actPath, o.actIdx = r.s.Position()
	o.page = app.ParsePage(st.Out)
	if st.ExecErr != "" && (st.Cont || len(input) > 255) && len(st.Moves) == 0 && st.Calls == 0 && st.Funcs == 0 {
		o.refused = true
		return o
	}
	o.exp = r.m.Request(input)
	if o.exp.Skip {
		return o
	}
	// a lateral move beyond the last page: the render fails or moves to the catch node
	if o.exp.LateralMove && !o.exp.ExecErr {
		if st.FlushErr != "" {
			o.browseOOR = true
		} else if len(o.actPath) == len(r.m.Path)+1 && o.actPath[len(o.actPath)-1] == "_catch" && strings.Join(o.actPath[:len(o.actPath)-1], "/") == strings.Join(r.m.Path, "/") {
			o.browseOOR = true
			r.m.SyncToCatch()
			o.exp.Moves = append(o.exp.Moves, "_catch")
			o.exp.Node = "_catch"
		}
	}
	o.pathAgree = strings.Join(o.actPath, "/") == strings.Join(r.m.Path, "/")
	o.idxAgree = o.actIdx == r.m.Idx
	if o.exp.GracefulEnd {
		// the engine unwinds the stack after delivering the final page
		o.pathAgree = len(o.actPath) == 0
		o.idxAgree = true
	}
	o.movesAgree = strings.Join(st.Moves, ",") == strings.Join(o.exp.Moves, ",")
	if !o.movesAgree && haveBefore && r.s.St != nil && !o.exp.GracefulEnd {
		// the code-fetch sequence is an observation aid, not part of any property: an
		// implementation that fetches code differently (caching, prefetching) is still right if
		// it made the same NUMBER of moves and ended at the same position
		if r.s.St.Moves-movesBefore == uint32(len(o.exp.Moves)) && o.pathAgree && o.idxAgree {
			o.movesAgree = true
		}
	}
	var ac, mc []string
	for _, c := range r.s.CallLog[ncalls:] {
		if c.Sym == "_first" {
			continue // the pre-VM function is not an instruction of the program
		}
		ac = append(ac, fmt.Sprintf("%s#%d(%q)", c.Sym, c.K, c.Input))
	}
	for _, c := range o.exp.Calls {
		mc = append(mc, fmt.Sprintf("%s#%d(%q)", c.Sym, c.K, c.Input))
	}
	o.callsAgree = strings.Join(ac, ",") == strings.Join(mc, ",")
	return o
}

// actualTable renders the live symbol tables like refvm.State.Table.
func actualTable(s *world.Sess) string {
	if s.Ca == nil {
		return "<nil>"
	}
	var parts []string
	for i, m := range s.Ca.Cache {
		var ks []string
		for k, v := range m {
			ks = append(ks, fmt.Sprintf("%s=%d:%x", k, len(v), refvm.Hash(v)))
		}
		sort.Strings(ks)
		parts = append(parts, fmt.Sprintf("%d%v", i, ks))
	}
	return strings.Join(parts, " ")
}

func actualUserFlags(s *world.Sess, flagCount uint32) string {
	if s.St == nil {
		return "<nil>"
	}
	var l []string
	pm, _ := world.Guard(func() {
		for f := uint32(8); f < 8+flagCount; f++ {
			if s.St.GetFlag(f) {
				l = append(l, fmt.Sprint(f))
			}
		}
	})
	if pm != "" {
		return "<reading the flags panicked: " + pm + ">"
	}
	return strings.Join(l, ",")
}

func describeExp(e *refvm.Expect) string {
	if e == nil {
		return "<none>"
	}
	return fmt.Sprintf("moves=%v calls=%d cont=%v execErr=%v(%s) node=%s prefix=%s graceful=%v abnormal=%v blocked=%v nomatch=%v", e.Moves, len(e.Calls), e.Cont, e.ExecErr, e.ErrWhy, e.Node, e.Prefix, e.GracefulEnd, e.Abnormal, e.BlockedReq, e.NoMatch)
}
