package checks

import (
	"context"
	"fmt"
	"strings"

	"git.defalsify.org/vise.git/db"
	pgdb "git.defalsify.org/vise.git/db/postgres"

	"visim/core"
	"visim/pgfake"
	"visim/tape"
	"visim/world"
)

func init() {
	core.Register(&core.Check{
		ID:    "C13",
		Level: "fault_enumeration",
		Rule: "one run = one seeded history of store operations on the real db/postgres over the fake server (single Put/Get, explicit Start..Stop/Abort transactions, Close+reopen, sticky context switches; 1-2 handles); the history is executed fault-free, then once for EVERY single primitive driver call made to fail (BeginTx, Exec, Query, Next, Scan, Commit with both in-doubt outcomes, Rollback) and for every pair (thorough) or a seeded sample of pairs (quick); " +
			"non-trivial = the history has at least one explicit transaction and one single-operation write and at least 8 fault placements were executed; distinct = distinct operation sequences; fault placements are reported separately",
		Runs:       map[string]int{"quick": 12000, "thorough": 60000},
		MaxSeconds: map[string]int{"quick": 40, "thorough": 900},
		Run:        runC13,
		Assumptions: []string{
			"pgfake is a stub of a Postgres server: read-committed transactions over a map, a failed statement aborts the transaction, calls on an ended transaction return pgx.ErrTxClosed, a connection is busy while a result set is open",
			"Abort is only issued while an explicit transaction is believed open (Abort has no error result and is exempt from 'the faulted operation reports an error')",
			"writes acknowledged inside an explicit transaction that met a fault are in doubt; when single-operation writes become visible to OTHER connections is not specified (only that they are not lost and are visible once the handle is closed)",
		},
		Real:       []string{"db/postgres", "db"},
		Stub:       []string{"Postgres server and pgx driver objects (pgfake)", "store client (seeded operation generator)"},
		FaultKinds: []string{"pg_fail:BeginTx", "pg_fail:Exec", "pg_fail:Query", "pg_fail:Next", "pg_fail:Scan", "pg_fail:Commit", "pg_fail:Commit(in doubt)", "pg_fail:Rollback"},
		Post: func(cov map[string]interface{}) {
			cov["exhaustive_note"] = "per history: every single call position is enumerated; pairs are exhaustive in the thorough tier and sampled in the quick tier; the histories themselves are sampled"
		},
	})
}

type pgOp struct {
	H    int    // handle
	Kind string // put get start stop abort close prefix session lang
	Key  string
	Val  string
	Arg  string
}

func (o pgOp) String() string {
	switch o.Kind {
	case "put":
		return fmt.Sprintf("h%d.Put(%s,%s)", o.H, o.Key, o.Val)
	case "get":
		return fmt.Sprintf("h%d.Get(%s)", o.H, o.Key)
	case "dump":
		return fmt.Sprintf("h%d.Dump(%s)+walk", o.H, o.Key)
	case "ensure":
		return fmt.Sprintf("h%d.ensureTable (the set-up step of Connect)", o.H)
	case "connect":
		return fmt.Sprintf("h%d.Connect (again, on the connected handle)", o.H)
	case "prefix", "session", "lang":
		return fmt.Sprintf("h%d.Set%s(%q)", o.H, o.Kind, o.Arg)
	}
	return fmt.Sprintf("h%d.%s", o.H, o.Kind)
}

func genPgHistory(t *tape.Tape) []pgOp {
	var ops []pgOp
	nh := t.Range(1, 2)
	valN := 0
	keys := []string{"k1", "k2"}
	units := t.Range(1, 5)
	if t.Chance(1, 3) {
		// the table set-up that Connect performs, reached through the guarded hook in /repo
		ops = append(ops, pgOp{H: t.Int(nh), Kind: "ensure"})
	}
	for u := 0; u < units; u++ {
		t.Begin("unit")
		h := t.Int(nh)
		switch t.Weighted(4, 3, 4, 1, 1, 1, 1) {
		case 6:
			// a listing in the middle of an explicit transaction on a handle with a language (and a translated type) selected
			ops = append(ops, pgOp{H: h, Kind: "prefix", Arg: "template"}, pgOp{H: h, Kind: "lang", Arg: "nor"}, pgOp{H: h, Kind: "start"})
			if t.Chance(1, 2) {
				valN++
				ops = append(ops, pgOp{H: h, Kind: "put", Key: keys[t.Int(2)], Val: fmt.Sprintf("v%d", valN)})
			}
			ops = append(ops, pgOp{H: h, Kind: "dump", Key: []string{"k", "k1", "a"}[t.Int(3)]})
			valN++
			ops = append(ops, pgOp{H: h, Kind: "put", Key: keys[t.Int(2)], Val: fmt.Sprintf("v%d", valN)})
			if t.Chance(3, 4) {
				ops = append(ops, pgOp{H: h, Kind: "stop"})
			} else {
				ops = append(ops, pgOp{H: h, Kind: "abort"})
			}
		case 5:
			// a listing: Dump, walk to the end, Close
			ops = append(ops, pgOp{H: h, Kind: "dump", Key: []string{"k", "k1", "a"}[t.Int(3)]})
		case 0:
			valN++
			ops = append(ops, pgOp{H: h, Kind: "put", Key: keys[t.Int(2)], Val: fmt.Sprintf("v%d", valN)})
		case 1:
			ops = append(ops, pgOp{H: h, Kind: "get", Key: keys[t.Int(2)]})
		case 2:
			ops = append(ops, pgOp{H: h, Kind: "start"})
			n := t.Range(1, 3)
			for i := 0; i < n; i++ {
				switch {
				case t.Chance(1, 12):
					// Connect on a handle that is connected: documented as ignored
					ops = append(ops, pgOp{H: h, Kind: "connect"})
				case t.Chance(1, 8):
					ops = append(ops, pgOp{H: h, Kind: "dump", Key: []string{"k", "k1", "a"}[t.Int(3)]})
				case t.Chance(2, 3):
					valN++
					ops = append(ops, pgOp{H: h, Kind: "put", Key: keys[t.Int(2)], Val: fmt.Sprintf("v%d", valN)})
				default:
					ops = append(ops, pgOp{H: h, Kind: "get", Key: keys[t.Int(2)]})
				}
			}
			if t.Chance(2, 3) {
				ops = append(ops, pgOp{H: h, Kind: "stop"})
			} else {
				ops = append(ops, pgOp{H: h, Kind: "abort"})
			}
		case 3:
			ops = append(ops, pgOp{H: h, Kind: "close"})
		case 4:
			switch t.Int(3) {
			case 0:
				ops = append(ops, pgOp{H: h, Kind: "prefix", Arg: []string{"userdata", "template"}[t.Int(2)]})
			case 1:
				ops = append(ops, pgOp{H: h, Kind: "session", Arg: []string{"", "s1"}[t.Int(2)]})
			default:
				ops = append(ops, pgOp{H: h, Kind: "lang", Arg: []string{"", "nor"}[t.Int(2)]})
			}
		}
		t.End()
	}
	// always finish with a write and a read so that "later operations work normally" has something to bite on
	valN++
	ops = append(ops, pgOp{H: 0, Kind: "put", Key: "k1", Val: fmt.Sprintf("v%d", valN)})
	ops = append(ops, pgOp{H: 0, Kind: "get", Key: "k1"})
	return ops
}

// model of one handle
type pgHandle struct {
	store    db.Db
	conn     *pgfake.Conn
	ctx      refCtx
	multi    bool              // explicit transaction open as far as the caller knows
	pending  map[string]string // writes of the open explicit transaction (refKey -> value)
	own      map[string]string // latest value this handle had acknowledged outside explicit transactions
	doomed   bool              // the explicit transaction met a fault or an error
	hadStart bool              // the handle has used Start at some point
}

type pgExec struct {
	srv      *pgfake.Server
	hs       []*pgHandle
	acked    map[string][]string // refKey -> acknowledged values in order of acknowledgement
	doubt    map[string][]string // refKey -> values whose write reported an error or sits in a doomed transaction
	written  map[string]bool
	trace    []string
	anyStart bool
}

func (e *pgExec) open(i int) {
	c := e.srv.Connect()
	st := pgdb.NewPgDb().WithConnection(c)
	h := &pgHandle{store: st, conn: c, ctx: newRefCtx(), pending: map[string]string{}, own: map[string]string{}}
	h.ctx.pfx = tUser
	st.SetPrefix(tUser)
	st.SetLock(tTpl, false)
	h.ctx.lock &^= tTpl
	if e.hs[i] != nil {
		h.hadStart = e.hs[i].hadStart
	}
	e.hs[i] = h
}

// observe reads the committed value of a key through a fresh connection, uncounted.
func (e *pgExec) observe(c refCtx, key string) ([]byte, error) {
	e.srv.Suspend = true
	defer func() { e.srv.Suspend = false }()
	st := pgdb.NewPgDb().WithConnection(e.srv.Connect())
	st.SetPrefix(c.pfx)
	st.SetSession(c.sid)
	st.SetLanguage(langPtr(c.lang))
	return st.Get(context.Background(), []byte(key))
}

func inList(l []string, v string) bool {
	for _, x := range l {
		if x == v {
			return true
		}
	}
	return false
}

type pgViolation struct {
	class string
	step  int
	msg   string
	attrs map[string]string
}

type pgResult struct {
	v     *pgViolation
	calls int
	fired map[string]int
	trace []string
	kinds []string
}

func callOps(s *pgfake.Server) []string {
	var l []string
	for _, c := range s.Log {
		if c.Op != "ConnClose" {
			l = append(l, c.Op)
		}
	}
	return l
}

func yn(b bool) string {
	if b {
		return "yes"
	}
	return "no"
}

// runPgHistory executes the history with the given fault placement and checks the oracles.
func runPgHistory(ops []pgOp, faults map[int]int) *pgResult {
	e := &pgExec{srv: pgfake.NewServer(), hs: make([]*pgHandle, 2), acked: map[string][]string{}, doubt: map[string][]string{}, written: map[string]bool{}}
	for k, f := range faults {
		e.srv.Faults[k] = f
	}
	e.open(0)
	e.open(1)
	ctx := context.Background()
	faultSeen := func(before int) bool {
		for i := before; i < len(e.srv.Log); i++ {
			if e.srv.Log[i].Fault != 0 {
				return true
			}
		}
		return false
	}
	// the property names the steps whose failure must be reported: begin, statement, row fetch,
	// commit. A failing Rollback (cleaning up after the result is already known) need not be.
	mustReport := func(before int) bool {
		for i := before; i < len(e.srv.Log); i++ {
			if e.srv.Log[i].Fault != 0 && e.srv.Log[i].Op != "Rollback" {
				return true
			}
		}
		return false
	}
	lastFaultCall := 0
	for k := range faults {
		if k > lastFaultCall {
			lastFaultCall = k
		}
	}
	res := func(v *pgViolation) *pgResult {
		return &pgResult{v, e.srv.Calls(), e.srv.Fired, e.trace, callOps(e.srv)}
	}
	bad := func(class string, step int, attrs map[string]string, format string, a ...interface{}) *pgResult {
		return res(&pgViolation{class, step, fmt.Sprintf(format, a...), attrs})
	}
	bg := ctx
	for i, op := range ops {
		h := e.hs[op.H]
		// every operation runs under its own request context; a cancellation fault ends it in mid-flight
		ctx, cancel := context.WithCancel(bg)
		e.srv.OnCancel = cancel
		defer cancel()
		before := len(e.srv.Log)
		desc := op.String()
		var err error
		var got []byte
		var pm, pat string
		switch op.Kind {
		case "prefix":
			ty := uint8(tUser)
			if op.Arg == "template" {
				ty = tTpl
			}
			h.ctx.pfx = ty
			h.store.SetPrefix(ty)
		case "session":
			h.ctx.sid = op.Arg
			h.store.SetSession(op.Arg)
		case "lang":
			h.ctx.lang = op.Arg
			h.store.SetLanguage(langPtr(op.Arg))
		case "put":
			pm, pat = world.Guard(func() { err = h.store.Put(ctx, []byte(op.Key), []byte(op.Val)) })
		case "get":
			pm, pat = world.Guard(func() { got, err = h.store.Get(ctx, []byte(op.Key)) })
		case "connect":
			pm, pat = world.Guard(func() { err = h.store.Connect(ctx, "postgres://already@connected/ignored") })
		case "ensure":
			en, ok := h.store.(interface {
				VerifEnsureTable(context.Context) error
			})
			if !ok {
				panic("infrastructure: db/postgres was built without the verif hook")
			}
			pm, pat = world.Guard(func() { err = en.VerifEnsureTable(ctx) })
		case "dump":
			pm, pat = world.Guard(func() {
				var d *db.Dumper
				d, err = h.store.Dump(ctx, []byte(op.Key))
				if err != nil {
					return
				}
				for n := 0; n < 1000; n++ {
					if k, _ := d.Next(ctx); k == nil {
						break
					}
				}
				err = d.Close()
			})
		case "start":
			pm, pat = world.Guard(func() { err = h.store.Start(ctx) })
		case "stop":
			pm, pat = world.Guard(func() { err = h.store.Stop(ctx) })
		case "abort":
			if !h.multi {
				e.trace = append(e.trace, desc+" [skipped: no explicit transaction]")
				continue
			}
			pm, pat = world.Guard(func() { h.store.Abort(ctx) })
		case "close":
			pm, pat = world.Guard(func() { err = h.store.Close(ctx) })
		}
		faulted := faultSeen(before)
		if op.Kind == "dump" && err != nil && !faulted && db.IsNotFound(err) {
			err = nil // nothing to list at or after the key: how an empty listing is reported
		}
		e.trace = append(e.trace, fmt.Sprintf("%s -> err=%v faulted=%v", desc, err, faulted))
		if pm != "" {
			return bad("panic:"+pat, i, map[string]string{"site": pat}, "%s panicked: %s", desc, pm)
		}
		if len(e.srv.Misuse) > 0 {
			return bad("call-after-tx-end", i, nil, "during %s: %s (log: %s)", desc, e.srv.Misuse[0], logTail(e.srv, 8))
		}
		// the operation during which a fault fired reports an error
		if faulted && mustReport(before) && err == nil && op.Kind != "abort" {
			return bad("fault-not-reported", i, nil, "%s: a driver call failed during the operation but it returned no error (log: %s)", desc, logTail(e.srv, 6))
		}
		rk := refKey(h.ctx.pfx, h.ctx.sid, op.Key, h.ctx.lang)
		faultsGone := e.srv.Calls() >= lastFaultCall && !faulted
		hs := map[string]string{"handle_used_explicit_tx_before": yn(h.hadStart), "any_explicit_tx_before": yn(e.anyStart)}
		switch op.Kind {
		case "start":
			if err == nil {
				h.multi = true
				h.pending = map[string]string{}
				h.doomed = false
				// only a Start that succeeded puts the handle into the (pinned) sticky multi-operation mode
				h.hadStart = true
				e.anyStart = true
			}
		case "put":
			e.written[rk] = true
			if h.multi {
				if err == nil && !h.doomed {
					h.pending[rk] = op.Val
				} else {
					h.doomed = true
					e.doubt[rk] = append(e.doubt[rk], op.Val)
				}
			} else {
				if err == nil {
					h.own[rk] = op.Val
					e.acked[rk] = append(e.acked[rk], op.Val)
				} else {
					e.doubt[rk] = append(e.doubt[rk], op.Val)
					if faultsGone {
						return bad("op-fails-after-fault", i, hs, "%s failed although no fault is active any more: %v (log: %s)", desc, err, logTail(e.srv, 8))
					}
				}
			}
		case "get":
			if h.multi && h.doomed {
				break
			}
			// what this handle must at least see: its own latest acknowledged write
			want, have := "", false
			if h.multi {
				if pv, ok := h.pending[rk]; ok {
					want, have = pv, true
				}
			}
			if !have {
				if ov, ok := h.own[rk]; ok {
					want, have = ov, true
				}
			}
			allowed := append([]string{}, e.doubt[rk]...)
			allowed = append(allowed, e.acked[rk]...)
			if langed(h.ctx.pfx) && h.ctx.lang != "" {
				dk := refKey(h.ctx.pfx, h.ctx.sid, op.Key, "")
				allowed = append(allowed, e.doubt[dk]...)
				allowed = append(allowed, e.acked[dk]...)
			}
			if err != nil {
				if h.multi {
					// not every operation of the explicit transaction succeeded: nothing is promised for it
					h.doomed = true
					for k, v := range h.pending {
						e.doubt[k] = append(e.doubt[k], v)
					}
				}
				if faulted {
					// it reports an error, as it must. One kind of error it may not be: "there is no such key", for
					// a key whose write this handle had acknowledged outside any explicit transaction - that is an
					// answer, not a report of the failure, and callers act on it (the engine starts a new session)
					if have && db.IsNotFound(err) && !h.multi && !h.doomed && len(e.doubt[rk]) == 0 && len(h.pending) == 0 {
						return bad("fault-answered-as-missing-key", i, hs, "%s: a driver call failed during the read and it answered not-found, although %q was acknowledged for that key (log: %s)", desc, want, logTail(e.srv, 8))
					}
					break
				}
				if !faultsGone {
					break
				}
				if have && db.IsNotFound(err) {
					return bad("acknowledged-write-lost", i, hs, "%s reports not-found but this handle had %q acknowledged (log: %s)", desc, want, logTail(e.srv, 10))
				}
				if !db.IsNotFound(err) {
					return bad("op-fails-after-fault", i, hs, "%s failed with an error that is not not-found although no fault is active any more: %v (log: %s)", desc, err, logTail(e.srv, 8))
				}
				break
			}
			if !inList(allowed, string(got)) && !(have && string(got) == want) {
				return bad("phantom-value", i, hs, "%s returned %q which no write to that key ever carried (acknowledged %v, in doubt %v)", desc, got, e.acked[rk], e.doubt[rk])
			}
			if have && string(got) != want {
				// read-your-writes: only a later acknowledged or an in-doubt write may have replaced it
				later := false
				seenOwn := false
				for _, v := range e.acked[rk] {
					if v == want {
						seenOwn = true
						continue
					}
					if seenOwn && v == string(got) {
						later = true
					}
				}
				if inList(e.doubt[rk], string(got)) {
					later = true
				}
				if h.multi {
					if _, ok := h.pending[rk]; ok {
						later = false // inside an explicit transaction its own write must be read back
					}
				}
				if !later {
					return bad("acknowledged-write-lost", i, hs, "%s returned %q but this handle had %q acknowledged after it (acknowledged in order %v, in doubt %v; log: %s)", desc, got, want, e.acked[rk], e.doubt[rk], logTail(e.srv, 10))
				}
			}
		case "stop", "close":
			wasMulti := h.multi
			wasDoomed := h.doomed
			txVals := h.pending
			if h.multi {
				if err == nil && !h.doomed {
					for k, v := range h.pending {
						e.acked[k] = append(e.acked[k], v)
						h.own[k] = v
					}
				} else {
					for k, v := range h.pending {
						e.doubt[k] = append(e.doubt[k], v)
					}
				}
				h.multi = false
				h.pending = map[string]string{}
			}
			h.doomed = false
			// explicit transaction in which every operation succeeded: visible to everyone at Stop
			if wasMulti && err == nil && !wasDoomed && e.srv.Calls() >= lastFaultCall {
				for k, v := range txVals {
					c, key := parseRefKey(k)
					got, gerr := e.observe(c, key)
					if gerr != nil || string(got) != v {
						return bad("committed-write-not-visible", i, nil, "after %s of an explicit transaction in which every operation succeeded, another connection reads %q (err %v) for %s instead of %q (log: %s)", desc, got, gerr, k, v, logTail(e.srv, 10))
					}
				}
			}
			if op.Kind == "close" {
				pctx := h.ctx
				e.open(op.H)
				nh := e.hs[op.H]
				nh.ctx = pctx
				nh.store.SetPrefix(pctx.pfx)
				nh.store.SetSession(pctx.sid)
				nh.store.SetLanguage(langPtr(pctx.lang))
				nh.own = h.own
			}
		case "abort":
			txVals := h.pending
			wasDoomed := h.doomed
			if h.doomed {
				for k, v := range h.pending {
					e.doubt[k] = append(e.doubt[k], v)
				}
			}
			h.multi = false
			h.pending = map[string]string{}
			h.doomed = false
			if !wasDoomed && e.srv.Calls() >= lastFaultCall {
				for k, v := range txVals {
					c, key := parseRefKey(k)
					got, gerr := e.observe(c, key)
					if gerr == nil && string(got) == v {
						return bad("aborted-write-visible", i, nil, "after %s another connection reads %q for %s, a value written only inside the aborted transaction", desc, got, k)
					}
				}
			}
		}
	}
	// end of history: close everything; every transaction must have been ended by commit or rollback
	for i, h := range e.hs {
		if h.multi {
			world.Guard(func() { h.store.Abort(ctx) })
			for k, v := range h.pending {
				e.doubt[k] = append(e.doubt[k], v)
			}
			h.multi = false
		}
		pm, pat := world.Guard(func() { h.store.Close(ctx) })
		if pm != "" {
			return bad("panic:"+pat, len(ops), map[string]string{"site": pat}, "final Close of handle %d panicked: %s", i, pm)
		}
	}
	if len(e.srv.Misuse) > 0 {
		return bad("call-after-tx-end", len(ops), nil, "%s", e.srv.Misuse[0])
	}
	for id, how := range e.srv.Ended {
		if how == "conn-drop" {
			return bad("tx-left-open", len(ops), map[string]string{"any_explicit_tx_before": yn(e.anyStart)}, "transaction %d was never committed or rolled back; it only ended when the connection was closed (log: %s)", id, logTail(e.srv, 14))
		}
	}
	if open := e.srv.OpenTx(); len(open) > 0 {
		return bad("tx-open-at-close", len(ops), nil, "transactions %v still open after Close", open)
	}
	// durability of acknowledged writes after everything was closed
	for _, rk := range sortedStrKeys(e.written) {
		c, key := parseRefKey(rk)
		got, gerr := e.observe(c, key)
		if len(e.acked[rk]) == 0 {
			continue
		}
		attrs := map[string]string{"any_explicit_tx_before": yn(e.anyStart)}
		if gerr != nil {
			return bad("acknowledged-write-lost", len(ops), attrs, "after the history (all handles closed) %s is not readable (%v) although %v was acknowledged (log: %s)", rk, gerr, e.acked[rk], logTail(e.srv, 14))
		}
		if !inList(e.acked[rk], string(got)) && !inList(e.doubt[rk], string(got)) {
			if langed(c.pfx) && c.lang != "" {
				dk := refKey(c.pfx, c.sid, key, "")
				if inList(e.acked[dk], string(got)) || inList(e.doubt[dk], string(got)) {
					// the read fell back to the default-language entry: the translated write is gone
					return bad("acknowledged-write-lost", len(ops), attrs, "after the history %s reads the default-language entry %q although the translated write %v was acknowledged (log: %s)", rk, got, e.acked[rk], logTail(e.srv, 14))
				}
			}
			return bad("phantom-value", len(ops), attrs, "after the history %s reads %q; acknowledged %v, in doubt %v", rk, got, e.acked[rk], e.doubt[rk])
		}
		if !e.anyStart && len(e.doubt[rk]) == 0 {
			last := e.acked[rk][len(e.acked[rk])-1]
			if string(got) != last {
				return bad("acknowledged-write-lost", len(ops), attrs, "after the history %s reads %q but the last acknowledged write was %q (all acknowledged: %v; log: %s)", rk, got, last, e.acked[rk], logTail(e.srv, 14))
			}
		}
	}
	return res(nil)
}

func sortedStrKeys(m map[string]bool) []string {
	var l []string
	for k := range m {
		l = append(l, k)
	}
	sortStrings(l)
	return l
}

func sortStrings(l []string) {
	for i := 1; i < len(l); i++ {
		for j := i; j > 0 && l[j] < l[j-1]; j-- {
			l[j], l[j-1] = l[j-1], l[j]
		}
	}
}

func logTail(s *pgfake.Server, n int) string {
	l := s.Log
	if len(l) > n {
		l = l[len(l)-n:]
	}
	var parts []string
	for _, c := range l {
		p := fmt.Sprintf("#%d tx%d %s", c.Idx, c.Tx, c.Op)
		if c.Fault != 0 {
			p += "[FAULT]"
		}
		if c.Err != "" {
			p += "(" + c.Err + ")"
		}
		parts = append(parts, p)
	}
	return strings.Join(parts, ", ")
}

func parseRefKey(rk string) (refCtx, string) {
	// inverse of refKey for the subset used here
	var c refCtx
	parts := strings.SplitN(rk, "|", 4)
	var ty int
	fmt.Sscanf(parts[0], "%d", &ty)
	c.pfx = uint8(ty)
	if strings.HasPrefix(parts[1], "s:") {
		c.sid = parts[1][2:]
	}
	var key string
	fmt.Sscanf(parts[2], "%q", &key)
	if strings.HasPrefix(parts[3], "l:") {
		c.lang = parts[3][2:]
	}
	return c, key
}

func runC13(c *core.Ctx) *core.Outcome {
	t := c.T
	o := core.NewOutcome()
	ops := genPgHistory(t)
	pairBudget := 40
	if c.Tier == "thorough" {
		pairBudget = 1 << 30
	}
	pairSeed := t.Draw(1 << 30) // seeded sample of pairs for the quick tier
	var opsS []string
	hasTx, hasSingle := false, false
	inTx := false
	for _, op := range ops {
		opsS = append(opsS, op.String())
		if op.Kind == "start" {
			hasTx, inTx = true, true
		}
		if op.Kind == "stop" || op.Kind == "abort" {
			inTx = false
		}
		if op.Kind == "put" && !inTx {
			hasSingle = true
		}
	}
	var vios []*core.Violation
	var scen []interface{}
	seenSig := map[string]bool{}
	report := func(v *pgViolation, faults map[int]int, trace []string) {
		batch := "fault-free"
		if len(faults) > 0 {
			batch = "faulted"
		}
		attrs := map[string]string{"batch": batch}
		for k, x := range v.attrs {
			attrs[k] = x
		}
		cv := &core.Violation{Class: v.class, Step: v.step, Attrs: attrs, Msg: fmt.Sprintf("[%s, faults at driver calls %v] %s", batch, faults, v.msg)}
		if seenSig[cv.Sig()] || len(vios) >= 12 {
			return
		}
		seenSig[cv.Sig()] = true
		vios = append(vios, cv)
		scen = append(scen, map[string]interface{}{"violation": cv.Sig(), "faults": fmt.Sprint(faults), "trace": trace})
	}
	// fault-free run
	r0 := runPgHistory(ops, nil)
	n := r0.calls
	o.Counts["fault_placements"]++
	if r0.v != nil {
		report(r0.v, nil, r0.trace)
	}
	placements := 1
	// every single call position, every fault variant that applies to it
	kinds := r0.kinds
	for p := 1; p <= n; p++ {
		variants := []int{pgfake.FaultErr, pgfake.FaultCancel}
		if p-1 < len(kinds) && kinds[p-1] == "Commit" {
			variants = append(variants, pgfake.FaultCommitDoubt)
		}
		for _, f := range variants {
			fs := map[int]int{p: f}
			r := runPgHistory(ops, fs)
			placements++
			for k, cnt := range r.fired {
				name := "pg_fail:" + k
				if f == pgfake.FaultCommitDoubt {
					name += "(in doubt)"
				}
				if f == pgfake.FaultCancel {
					name += "(context cancelled)"
				}
				o.Faults[name] += cnt
			}
			if r.v != nil {
				report(r.v, fs, r.trace)
			}
		}
	}
	// pairs
	rng := pairSeed*2654435761 + 12345
	pairs := 0
	total := n * (n + 3) / 2
	for p := 1; p <= n && pairs < pairBudget; p++ {
		for q := p + 1; q <= n+3 && pairs < pairBudget; q++ {
			if c.Tier != "thorough" {
				rng = rng*6364136223846793005 + 1442695040888963407
				if int((rng>>33)%uint64(total+1)) > pairBudget {
					continue
				}
			}
			fs := map[int]int{p: pgfake.FaultErr, q: pgfake.FaultErr}
			if (p+q)%3 == 0 {
				fs[q] = pgfake.FaultCommitDoubt
			}
			r := runPgHistory(ops, fs)
			placements++
			pairs++
			for k, cnt := range r.fired {
				o.Faults["pg_fail:"+k] += cnt
			}
			if r.v != nil {
				report(r.v, fs, r.trace)
			}
		}
	}
	if len(vios) > 0 {
		o.V = vios[0]
		o.Also = vios[1:]
	}
	o.Counts["fault_placements"] += placements - 1
	o.Counts["driver_calls_fault_free"] += n
	o.Counts["sim_ticks"] += n * placements
	o.Nontrivial = hasTx && hasSingle && placements >= 8
	o.States = append(o.States, h64(strings.Join(opsS, ";")))
	o.TraceHash = h64(strings.Join(opsS, ";"), n, placements)
	if c.WantScenario || o.V != nil {
		o.Scenario = map[string]interface{}{"ops": opsS, "driver_calls": n, "fault_placements": placements, "violations": scen}
	}
	return o
}

var _ = tape.Mix
