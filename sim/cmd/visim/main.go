package main

import (
	"flag"
	"fmt"
	"os"
	"runtime/pprof"
	"strconv"

	_ "visim/checks"
	"visim/core"
)

func usage() {
	fmt.Fprintf(os.Stderr, "usage: visim check <id> [--tier quick|thorough] [--seed n] [--runs n] [--workers n]\n       visim replay <file> [-v]\n       visim list\n")
	os.Exit(2)
}

func main() {
	if len(os.Args) < 2 {
		usage()
	}
	verif := os.Getenv("VERIF_DIR")
	if verif == "" {
		verif = "/verif"
	}
	switch os.Args[1] {
	case "list":
		for id := range core.Registry {
			fmt.Println(id)
		}
	case "check":
		if len(os.Args) < 3 {
			usage()
		}
		fs := flag.NewFlagSet("check", flag.ExitOnError)
		tier := fs.String("tier", envOr("VERIF_TIER", "quick"), "quick|thorough")
		seedDef, _ := strconv.ParseUint(envOr("VERIF_SEED", "1"), 10, 64)
		seed := fs.Uint64("seed", seedDef, "seed")
		runs := fs.Int("runs", 0, "override number of runs")
		workers := fs.Int("workers", 0, "workers")
		noshrink := fs.Bool("noshrink", false, "do not minimise")
		prof := fs.String("cpuprofile", "", "write cpu profile")
		fs.Parse(os.Args[3:])
		if *prof != "" {
			f, _ := os.Create(*prof)
			pprof.StartCPUProfile(f)
			rc := core.RunBatch(core.Options{ID: os.Args[2], Tier: *tier, Seed: *seed, Workers: *workers, VerifDir: verif, OutDir: os.Getenv("VISIM_OUT"), RunsOverride: *runs, NoShrink: *noshrink})
			pprof.StopCPUProfile()
			f.Close()
			os.Exit(rc)
		}
		os.Exit(core.RunBatch(core.Options{ID: os.Args[2], Tier: *tier, Seed: *seed, Workers: *workers, VerifDir: verif, OutDir: os.Getenv("VISIM_OUT"), RunsOverride: *runs, NoShrink: *noshrink}))
	case "hashes":
		if len(os.Args) < 3 {
			usage()
		}
		fs := flag.NewFlagSet("hashes", flag.ExitOnError)
		tier := fs.String("tier", "quick", "")
		seed := fs.Uint64("seed", 1, "")
		runs := fs.Int("runs", 200, "")
		workers := fs.Int("workers", 0, "")
		fs.Parse(os.Args[3:])
		os.Exit(core.Hashes(os.Args[2], *tier, *seed, *runs, *workers))
	case "hangprobe":
		// visim hangprobe <id> <tier> <seed> <run index> <seconds> [replay file]
		if len(os.Args) < 7 {
			usage()
		}
		seed, _ := strconv.ParseUint(os.Args[4], 10, 64)
		idx, _ := strconv.ParseUint(os.Args[5], 10, 64)
		secs, _ := strconv.Atoi(os.Args[6])
		rp := ""
		if len(os.Args) > 7 {
			rp = os.Args[7]
		}
		os.Exit(core.HangProbe(os.Args[2], os.Args[3], seed, idx, rp, secs))
	case "replay":
		if len(os.Args) < 3 {
			usage()
		}
		v := len(os.Args) > 3 && os.Args[3] == "-v"
		os.Exit(core.Replay(os.Args[2], v))
	default:
		usage()
	}
}

func envOr(k, d string) string {
	if v := os.Getenv(k); v != "" {
		return v
	}
	return d
}
