package checks

import (
	"fmt"
	"strings"

	"visim/app"
	"visim/core"
	"visim/world"
)

func init() {
	core.Register(&core.Check{
		ID:    "C06",
		Level: "exploration",
		Rule: "one run = one generated application with CATCH/CROAK on client flags in both modes (in preludes and after HALT) whose external functions return arbitrary FlagSet/FlagReset lists over 0..8+FlagCount-1 (reserved 0..5, TERMINATE, LANG, client flags; FlagCount 0..2100, i.e. also indices beyond one byte and flag fields longer than 255 bytes) + an input history with restarts; " +
			"(A) moves, position and client flags after every request must equal the reference model's; (B) a twin whose external results have the indices 0..5 stripped must produce identical outputs, results and stored flag bytes; (C) from the request in which TERMINATE was set every request must report stop and run nothing; " +
			"non-trivial = at least one CATCH or CROAK whose flag was changed by external code during the run, or a TERMINATE block of >= 2 requests, or a reserved index requested; distinct = distinct sequences of (path, flags)",
		Runs:       map[string]int{"quick": 40000, "thorough": 3000000},
		MaxSeconds: map[string]int{"quick": 40, "thorough": 900},
		Run:        runC06,
		Assumptions: []string{
			"single-candidate routing after each HALT, so that control flow differences can only come from CATCH/CROAK",
			"lifetimes of the built-in bookkeeping flags (READIN, INMATCH, WAIT, LOADFAIL, DIRTY) are only compared between twins, never against the model",
			"nothing is asserted after the harness has cleared TERMINATE in the stored session",
		},
		Real:       realAll,
		Stub:       append(append([]string{}, stubAll...), "reference model refvm (oracle)"),
		FaultKinds: []string{"restart", "ext_flags", "ext_error", "ext_terminate"},
	})
}

func c06Profile(flagCount uint32, single bool, pool bool) app.Profile {
	return app.Profile{
		PoolFlags: pool,
		MaxNodes:  6, MaxExt: 4, FlagCount: flagCount,
		Menus: true, Sinks: false,
		Catch: true, Croak: true, ExtFlags: true, ExtReserved: true, ExtTerminate: true,
		ExtErrPct: 3, EmptyPct: 3,
		SingleRoute: single, RelTargets: true,
		CatchShape: -1,
	}
}

// stripReserved clones the application with indices 0..5 removed from every external result.
func stripReserved(a *app.App) *app.App {
	b := *a
	b.Ext = nil
	for _, e := range a.Ext {
		ne := &app.ExtSym{Name: e.Name, Size: e.Size}
		for _, bh := range e.Script {
			nb := bh
			nb.Set, nb.Reset = nil, nil
			for _, f := range bh.Set {
				if f > 5 {
					nb.Set = append(nb.Set, f)
				}
			}
			for _, f := range bh.Reset {
				if f > 5 {
					nb.Reset = append(nb.Reset, f)
				}
			}
			ne.Script = append(ne.Script, nb)
		}
		b.Ext = append(b.Ext, ne)
	}
	b.Index()
	return &b
}

func runC06(c *core.Ctx) *core.Outcome {
	t := c.T
	o := core.NewOutcome()
	cfg := genCfg(t)
	cfg.Backend = world.BackMem
	cfg.FinishAlways = true
	cfg.CacheSize = 0
	cfg.OutputSize = 0
	cfg.FlagCount = uint32([]int{1, 3, 8, 9, 0, 40, 250, 300, 1000, 2100}[t.Int(10)])
	if t.Chance(1, 20) {
		cfg.FlagCount = 66000 // indices that need three bytes in the bytecode, a flag field of more than 8 KiB
		o.Probes["flag_indices_beyond_16_bits"]++
	}
	cfg.First = t.Chance(1, 3)
	cfg.Debug = t.Chance(1, 4) // an attached debugger looks, it does not touch
	cfg.ResetOnEmpty = t.Chance(1, 5) // only exercised while the session is blocked: the model does not know the option
	a := app.Generate(t, c06Profile(cfg.FlagCount, t.Chance(3, 4), cfg.FlagCount > 16 && t.Chance(3, 4)))
	if err := a.Validate(); err != nil {
		panic("generator produced ill-formed app: " + err.Error())
	}
	persisted := t.Chance(2, 3)
	r := newModelRun(a, cfg, persisted)
	defer r.w.Close()
	// twin B: reserved indices stripped
	wb := world.New(stripReserved(a), cfg)
	wb.UseBackend()
	defer wb.Close()
	B := wb.NewSession("sess", persisted)
	reservedRequested := false
	for _, e := range a.Ext {
		for _, bh := range e.Script {
			for _, f := range append(append([]uint32{}, bh.Set...), bh.Reset...) {
				if f <= 5 {
					reservedRequested = true
				}
			}
		}
	}
	nreq := t.Range(2, 14)
	blockedRun := 0
	flagSteered := 0
	var blockSnap string
	for i := 0; i < nreq; i++ {
		t.Begin("request")
		var in []byte
		cur := r.curNode()
		if i > 0 {
			in = genInput(t, a, cur, 1)
		}
		fresh := persisted && t.Chance(3, 4)
		emptyIn := t.Chance(1, 3)
		t.End()
		flagsBefore := r.m.UserFlags()
		wasBlocked := r.m.Blocked
		if cfg.ResetOnEmpty && i > 0 {
			if wasBlocked && emptyIn {
				in = []byte{} // TERMINATE is cleared by client code, not by what the client sends
				o.Probes["empty_input_on_blocked_session_with_reset_on_empty"]++
			} else if len(in) == 0 {
				in = []byte("0")
			}
		}
		ob := r.request(in, fresh)
		sb := B.Request(in, fresh)
		o.Counts["requests"] += 2
		if ob.st.Fresh && i > 0 {
			o.Faults["restart"]++
		}
		if ob.panic || sb.Panic != "" {
			o.Probes["foreign_panic"]++
			break
		}
		// (B) reserved flags are tamper-proof by every path a result can take
		if stepSig(ob.st) != stepSig(sb) {
			return finishC06(o, c, r, wb).Fail("reserved-flag-tampered", i, map[string]string{"how": "behaviour"}, "request %d input %s: with reserved indices 0..5 in the external results (cont=%v execErr=%q flushErr=%q out=%s) != with them stripped (cont=%v execErr=%q flushErr=%q out=%s)",
				i, short(string(in)), ob.st.Cont, ob.st.ExecErr, ob.st.FlushErr, short(ob.st.Out), sb.Cont, sb.ExecErr, sb.FlushErr, short(sb.Out))
		}
		if r.s.St != nil && B.St != nil && fmt.Sprintf("%x", r.s.St.Flags) != fmt.Sprintf("%x", B.St.Flags) {
			return finishC06(o, c, r, wb).Fail("reserved-flag-tampered", i, map[string]string{"how": "flag-bytes"}, "request %d input %s: flag bytes %x with reserved indices requested, %x with them stripped", i, short(string(in)), r.s.St.Flags, B.St.Flags)
		}
		if ob.refused {
			continue
		}
		if ob.exp.Skip {
			o.Counts["out_of_envelope"]++
			break
		}
		for _, cl := range ob.exp.Calls {
			if cl.Err {
				o.Faults["ext_error"]++
			}
		}
		if r.m.UserFlags() != flagsBefore {
			o.Faults["ext_flags"]++
		}
		// (C) TERMINATE block
		if ob.exp.BlockedReq {
			blockedRun++
			o.Probes["blocked_request"]++
			if ob.st.Cont || ob.st.Out != "" || len(ob.st.Moves) > 0 || ob.st.Calls > 0 || ob.st.Funcs > 0 {
				return finishC06(o, c, r, wb).Fail("terminate-not-blocking", i, nil, "request %d input %s arrived while TERMINATE is set: cont=%v output=%s code fetches=%v external lookups/calls=%d (exec error %q)", i, short(string(in)), ob.st.Cont, short(ob.st.Out), ob.st.Moves, ob.st.Calls+ob.st.Funcs, ob.st.ExecErr)
			}
			snap := blockKey(r)
			if blockSnap != "" && snap != blockSnap {
				return finishC06(o, c, r, wb).Fail("terminate-state-changed", i, nil, "request %d arrived while TERMINATE is set and changed the session: %s -> %s", i, blockSnap, snap)
			}
			blockSnap = snap
			continue
		}
		if wasBlocked {
			continue
		}
		if ob.exp.ExecErr || ob.st.ExecErr != "" {
			if ob.exp.ExecErr != (ob.st.ExecErr != "") && !r.m.ExtFailed {
				o.Probes["exec_error_disagreement"]++
			}
			break
		}
		o.States = append(o.States, h64(strings.Join(r.m.Path, "/"), r.m.UserFlags(), r.m.Blocked))
		// (A) control flow and client flags
		if !ob.browseOOR && !ob.movesAgree {
			class := "wrong-flag-routing"
			return finishC06(o, c, r, wb).Fail(class, i, nil, "request %d input %s at %s with client flags {%s}: moves %v, CATCH/CROAK on those flags give %v (model: %s)", i, short(string(in)), cur, flagsBefore, ob.st.Moves, ob.exp.Moves, describeExp(ob.exp))
		}
		if ob.exp.Abnormal {
			o.Faults["ext_terminate"]++
			if ob.st.Cont {
				return finishC06(o, c, r, wb).Fail("terminate-not-stopping", i, nil, "request %d input %s: TERMINATE was set (or CROAK fired / code ran out without HALT) but the engine reports continue", i, short(string(in)))
			}
			blockSnap = blockKey(r)
		}
		if af, mf := actualUserFlags(r.s, cfg.FlagCount), r.m.UserFlags(); af != mf {
			return finishC06(o, c, r, wb).Fail("wrong-client-flags", i, nil, "request %d input %s: client flags set {%s}, expected {%s}", i, short(string(in)), af, mf)
		}
		if len(ob.exp.Moves) > 1 || (len(ob.exp.Moves) == 1 && flagsBefore != "") {
			flagSteered++
		}
		if ob.exp.GracefulEnd {
			break
		}
	}
	o.Nontrivial = flagSteered > 0 || blockedRun >= 2 || reservedRequested
	if reservedRequested {
		o.Probes["run_with_reserved_indices_requested"]++
	}
	return finishC06(o, c, r, wb)
}

func blockKey(r *modelRun) string {
	p, idx := r.s.Position()
	return fmt.Sprintf("%v/%d flags{%s} table %s", p, idx, actualUserFlags(r.s, r.w.Cfg.FlagCount), actualTable(r.s))
}

func finishC06(o *core.Outcome, c *core.Ctx, r *modelRun, wb *world.World) *core.Outcome {
	for k, v := range r.m.Stats {
		o.Probes["model_"+k] += v
	}
	if c.WantScenario || o.V != nil {
		o.Scenario = map[string]interface{}{"with_reserved": scenario(r.w, nil), "stripped": scenario(wb, nil)["sessions"]}
	}
	return finish(o, r.w, wb)
}
