// Package sched is the seeded baton scheduler: tasks are real goroutines that are parked
// and released one at a time; which task runs next is drawn from the tape by the caller.
// The hand-off is invisible to the race detector (see race_on.go), so conflicting accesses
// between two tasks are reported wherever in the run they occur, while the execution
// order stays a pure function of the tape.
package sched

import "sync"

type task struct {
	wake chan struct{}
	done bool
}

type note struct {
	id  int
	tag string
}

type Sched struct {
	tasks   []*task
	yielded chan note
	wg      sync.WaitGroup // real (race-visible) join at the end of Run
	// Trace records the schedule (task id per step).
	Trace []int
}

func New() *Sched { return &Sched{yielded: make(chan note)} }

// Go registers a task. f receives a yield function to call at every seam event.
func (s *Sched) Go(f func(yield func(tag string))) int {
	id := len(s.tasks)
	t := &task{wake: make(chan struct{})}
	s.tasks = append(s.tasks, t)
	s.wg.Add(1)
	go func() {
		defer s.wg.Done()
		raceOff()
		<-t.wake
		raceOn()
		f(func(tag string) {
			raceOff()
			s.yielded <- note{id, tag}
			<-t.wake
			raceOn()
		})
		raceOff()
		s.yielded <- note{-(id + 1), ""}
		raceOn()
	}()
	return id
}

// Run releases one task at a time until all are done. pick chooses among the runnable ids;
// last is the task that ran last (-1 at the start) and lastTag the tag it yielded with.
func (s *Sched) Run(pick func(runnable []int, last int, lastTag string) int) {
	last := -1
	lastTag := ""
	for {
		var runnable []int
		for i, t := range s.tasks {
			if !t.done {
				runnable = append(runnable, i)
			}
		}
		if len(runnable) == 0 {
			s.wg.Wait()
			return
		}
		id := pick(runnable, last, lastTag)
		s.Trace = append(s.Trace, id)
		last = id
		raceOff()
		s.tasks[id].wake <- struct{}{}
		r := <-s.yielded
		raceOn()
		lastTag = r.tag
		if r.id < 0 {
			s.tasks[-r.id-1].done = true
		}
	}
}
