package checks

import (
	"bytes"
	"context"
	"fmt"
	"strings"
	"sync"

	"git.defalsify.org/vise.git/state"
	"git.defalsify.org/vise.git/vm"

	"visim/app"
	"visim/core"
	"visim/world"
)

func init() {
	core.Register(&core.Check{
		ID:    "C17",
		Level: "exploration",
		Rule: "one run = one generated application + input history served by twin A, and by twin B with refusal candidates (bytes failing the input pattern, newline-containing, longer than the limit) and Flush-without-Exec probes inserted at drawn positions, in long-lived and persisted operation on any backend; " +
			"non-trivial = at least one inserted request was refused at a position >= 1 and at least 2 regular requests followed; distinct = distinct sequences of abstract session states with the insertion positions",
		Runs:       map[string]int{"quick": 50000, "thorough": 2500000},
		MaxSeconds: map[string]int{"quick": 40, "thorough": 900},
		Run:        runC17,
		Assumptions: []string{
			"a candidate the engine accepts is not a refusal: the run is dropped from that point and counted (the property does not say which inputs must be refused)",
			"the pending-code change from 'none' to 'MOVE <root>' made by engine initialisation before a refused FIRST request is not observable and is not compared",
		},
		Real:       append(append([]string{}, realAll...), "db/fs (compiled against the simulated os)", "db/postgres"),
		Stub:       append(append([]string{}, stubAll...), "OS filesystem (simfs)", "Postgres server (pgfake)"),
		FaultKinds: []string{"client_garbage", "caller_buffer_reuse", "flush_without_exec", "restart"},
	})
}

var refusalCandidates = [][]byte{
	[]byte(" "), []byte("\n"), []byte("*"), []byte("_"), []byte("<"), []byte(">"), []byte("^"), []byte("."), []byte("-1"),
	[]byte("\x00"), []byte("\xff\xfe"), []byte("@root|$"), []byte("{{.x}}"), []byte("+"), []byte("#1"), []byte("\t1"),
	[]byte(strings.Repeat("9", 256)), []byte(strings.Repeat("z", 300)), []byte("1" + strings.Repeat("0", 255)),
	[]byte("\n1"), []byte(" 1"), []byte("/1"), []byte("(0)"), []byte("\r"), []byte("\r\n"), []byte("\n\n"),
	[]byte("1" + strings.Repeat("é", 150)), []byte("a" + strings.Repeat("→", 90)), []byte(strings.Repeat("ø", 128)),
	[]byte(" " + strings.Repeat("x", 250)), []byte(strings.Repeat("*", 300)), []byte("\n" + strings.Repeat("1", 220)), []byte("-" + strings.Repeat("0", 254)),
}

// the application has registered one input format of its own (engine.AddValidInput; the registry is
// process-wide in the library, so it is filled once, before any run of this check validates an input)
var c17Format sync.Once

// inputs only that format accepts, and refused inputs of the same lengths
var c17Custom = [][]byte{[]byte("*123#"), []byte("*1#"), []byte("*00000#"), []byte("*77#")}
var c17SameLength = [][]byte{[]byte("#0000"), []byte("#1*"), []byte("#123456"), []byte("*77*"), []byte("*12 #"), []byte("*#")}

func runC17(c *core.Ctx) *core.Outcome {
	t := c.T
	o := core.NewOutcome()
	c17Format.Do(func() {
		if err := vm.RegisterInputValidator(0, `^\*[0-9]+#$`); err != nil {
			panic("C17 harness: cannot register the input format: " + err.Error())
		}
	})
	cfg := genCfg(t)
	cfg.Backend = t.Weighted(4, 2, 1, 2)
	cfg.FinishAlways = t.Chance(1, 2)
	cfg.SetSession = t.Chance(1, 2)
	cfg.ResetOnEmpty = t.Chance(1, 4) // the reset belongs to an EMPTY input; what is refused stays without effect under this option too
	a := app.Generate(t, fullProfile(t, cfg.FlagCount))
	if err := a.Validate(); err != nil {
		panic("generator produced ill-formed app: " + err.Error())
	}
	persisted := t.Chance(1, 2)
	restartEvery := persisted && t.Chance(2, 3)
	if persisted && !restartEvery {
		cfg.FinishLate = t.Chance(1, 2) // one engine serves several requests and is finished when retired
	}
	nreq := t.Range(2, 12)
	wa := world.New(a, cfg)
	wa.UseBackend()
	defer wa.Close()
	wb := world.New(a, cfg)
	wb.UseBackend()
	defer wb.Close()
	A := wa.NewSession("s", persisted)
	B := wb.NewSession("s", persisted)
	refusedAtPos := 0
	afterRefusal := 0
	// a gateway reads every request of a connection into the same buffer
	reuse := t.Chance(1, 2)
	bufA, bufB := make([]byte, 0, 16), make([]byte, 0, 16)
	via := func(buf *[]byte, in []byte) []byte {
		if !reuse || in == nil {
			return in
		}
		*buf = append((*buf)[:0], in...)
		return *buf
	}
	if reuse {
		o.Faults["caller_buffer_reuse"]++
	}
	fail := func(class string, step int, format string, args ...interface{}) *core.Outcome {
		o.Fail(class, step, nil, format, args...)
		return finishC17(o, c, wa, wb)
	}
	for i := 0; i < nreq; i++ {
		t.Begin("request")
		var in []byte
		if i > 0 {
			cur := ""
			if p, _ := A.Position(); len(p) > 0 {
				cur = p[len(p)-1]
			}
			in = genInput(t, a, cur, 0)
			if t.Chance(1, 6) {
				in = c17Custom[t.Int(len(c17Custom))] // accepted through the application's own format only
				o.Probes["input_in_the_applications_own_format"]++
			}
		}
		insert := t.Weighted(5, 3, 1) // nothing, refusal candidate, flush-without-exec
		var cand []byte
		if insert == 1 {
			if t.Chance(1, 5) {
				cand = c17SameLength[t.Int(len(c17SameLength))]
			} else if t.Chance(4, 5) {
				cand = refusalCandidates[t.Int(len(refusalCandidates))]
			} else {
				n := t.Range(1, 8)
				cand = make([]byte, n)
				for j := range cand {
					cand[j] = byte(t.Int(48)) // below '0': never alphanumeric
				}
			}
		}
		fresh := restartEvery || (persisted && t.Chance(1, 4))
		// the inserted request may be served by the engine that is about to be retired
		freshIns := fresh && (restartEvery || t.Chance(1, 2))
		t.End()

		// --- insertion in twin B
		if insert == 1 && (i > 0 || t.Chance(1, 2)) {
			before := snapKey(B.St, B.Ca)
			storedBefore := storedState(wb, B)
			nCalls := len(B.CallLog)
			st := B.Request(via(&bufB, cand), freshIns)
			o.Counts["requests"]++
			if st.Panic != "" {
				o.Probes["foreign_panic"]++
				break
			}
			if st.ExecErr == "" {
				if len(cand) > state.INPUT_LIMIT {
					// the one refusal the property spells out: longer than the input limit (the library's own
					// constant, counted in bytes as everything else about an input is)
					return fail("overlong-input-accepted", i, "input of %d bytes (limit %d) was not refused: cont=%v out=%s", len(cand), state.INPUT_LIMIT, st.Cont, short(st.Out))
				}
				// accepted: not a refusal; the twins no longer correspond
				o.Probes["candidate_accepted"]++
				break
			}
			o.Faults["client_garbage"]++
			if st.Out != "" {
				return fail("refused-input-produced-output", i, "refused input %s (error %q) produced output %s", short(string(cand)), st.ExecErr, short(st.Out))
			}
			if len(B.CallLog) != nCalls || st.Calls > 0 || st.Funcs > 0 {
				return fail("refused-input-ran-code", i, "refused input %s (error %q) caused %d external lookups/calls", short(string(cand)), st.ExecErr, st.Calls+st.Funcs)
			}
			if len(st.Moves) > 0 && i > 0 {
				return fail("refused-input-moved", i, "refused input %s (error %q) fetched code for %v", short(string(cand)), st.ExecErr, st.Moves)
			}
			if i > 0 {
				refusedAtPos++
				if !st.Fresh {
					if after := snapKey(B.St, B.Ca); after != before {
						return fail("refused-input-changed-state", i, "refused input %s (error %q) changed the session:\n before %s\n after  %s", short(string(cand)), st.ExecErr, before, after)
					}
				}
				if storedAfter := storedState(wb, B); !cfg.FinishLate && storedBefore != "" && storedAfter != storedBefore {
					return fail("refused-input-changed-stored-state", i, "refused input %s (error %q) changed the stored session:\n before %s\n after  %s", short(string(cand)), st.ExecErr, storedBefore, storedAfter)
				}
				o.Probes["refusal_checked_against_snapshot"]++
			}
		}
		if insert == 2 && persisted && !cfg.FinishLate {
			// ask for output before anything was executed: fresh engine, Flush, Finish
			storedBefore := storedState(wb, B)
			msg, out, err := flushOnly(B)
			o.Faults["flush_without_exec"]++
			if msg != "" {
				o.Probes["foreign_panic"]++
				break
			}
			if err == nil {
				return fail("flush-without-exec-accepted", i, "Flush on an engine that executed nothing returned no error (output %s)", short(out))
			}
			if out != "" {
				return fail("flush-without-exec-output", i, "Flush on an engine that executed nothing wrote %s", short(out))
			}
			if storedAfter := storedState(wb, B); storedAfter != storedBefore {
				return fail("flush-without-exec-changed-stored-state", i, "Flush without Exec changed the stored session:\n before %s\n after  %s", storedBefore, storedAfter)
			}
			B.Drop()
		}

		// --- the regular request in both twins
		sa := A.Request(via(&bufA, in), fresh)
		sb := B.Request(via(&bufB, in), fresh || (insert == 2 && persisted && !cfg.FinishLate))
		o.Counts["requests"] += 2
		if fresh {
			o.Faults["restart"]++
		}
		if sa.Panic != "" || sb.Panic != "" {
			o.Probes["foreign_panic"]++
			break
		}
		o.States = append(o.States, h64(stateHash(A), insert))
		if stepSig(sa) != stepSig(sb) {
			return fail("refused-input-had-effect", i, "request %d input %s: without refused requests (cont=%v execErr=%q flushErr=%q out=%s) != with refused requests inserted (cont=%v execErr=%q flushErr=%q out=%s)",
				i, short(string(in)), sa.Cont, sa.ExecErr, sa.FlushErr, short(sa.Out), sb.Cont, sb.ExecErr, sb.FlushErr, short(sb.Out))
		}
		if fmt.Sprint(callSig(A)) != fmt.Sprint(callSig(B)) {
			return fail("refused-input-changed-calls", i, "external call logs differ after request %d: %v vs %v", i, callSig(A), callSig(B))
		}
		if refusedAtPos > 0 {
			afterRefusal++
		}
		if (sa.ExecErr != "" && !sa.Cont) || sa.FlushErr != "" || (sa.ExecErr == "" && !sa.Cont) {
			break
		}
	}
	o.Nontrivial = refusedAtPos >= 1 && afterRefusal >= 2
	return finishC17(o, c, wa, wb)
}

func callSig(s *world.Sess) []string {
	var l []string
	for _, c := range s.CallLog {
		l = append(l, fmt.Sprintf("%s#%d(%q)", c.Sym, c.K, c.Input))
	}
	return l
}

// storedState decodes the session record currently in the store ("" if none).
func storedState(w *world.World, s *world.Sess) string {
	if !s.Persist || w.Peek == nil {
		return ""
	}
	var key string
	msg, _ := world.Guard(func() {
		store, err := w.Peek(s)
		if err != nil {
			return
		}
		if w.Cfg.SetSession {
			store.SetSession(s.ID)
		}
		store.SetPrefix(16)
		b, err := store.Get(context.Background(), []byte(s.ID))
		if err != nil {
			return
		}
		st, ca, pm, _, err := restore(b)
		if pm != "" || err != nil {
			key = "<undecodable>"
			return
		}
		key = snapKey(st, ca)
	})
	if msg != "" {
		return "<panic>"
	}
	return key
}

// flushOnly builds a fresh engine for the session and calls Flush and Finish without Exec.
func flushOnly(s *world.Sess) (panicMsg string, out string, err error) {
	var buf bytes.Buffer
	panicMsg, _ = world.Guard(func() {
		if e := s.Rebuild(); e != nil {
			err = e
			return
		}
		_, err = s.Eng.Flush(context.Background(), &buf)
		s.Eng.Finish(context.Background())
	})
	return panicMsg, buf.String(), err
}

func finishC17(o *core.Outcome, c *core.Ctx, wa, wb *world.World) *core.Outcome {
	if c.WantScenario || o.V != nil {
		o.Scenario = map[string]interface{}{"with_refused": scenario(wb, nil), "without": scenario(wa, nil)["sessions"]}
	}
	return finish(o, wa, wb)
}
