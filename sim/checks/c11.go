package checks

import (
	"bytes"
	"encoding/base64"
	"context"
	"fmt"
	"path"
	"strings"

	"git.defalsify.org/vise.git/db"

	"visim/app"
	"visim/core"
	"visim/simfs"
	"visim/world"
)

func init() {
	core.Register(&core.Check{
		ID:    "C11",
		Level: "exploration",
		Rule: "two kinds of runs. (a) injectivity sweep (one per backend, first runs of the batch): every (type, session, key) over an adversarial alphabet {a . _ / 1 @ P} up to length 2 (quick) / 3 (thorough) is written with a unique tagged value into one store and read back; any read returning another triple's tag is a collision. " +
			"(b) seeded histories: 2..5 adversarial triples (separators, type-prefix characters, language-like suffixes, empty session, binary bytes, path elements), writes and reads interleaved over two handles per backend, plus a per-session filesystem listing; " +
			"(c) every fourth run, through the engine: 2-3 sessions with related ids (prefixes of each other, separators, type-prefix and language-like characters) are served alternately, an engine per request, over ONE shared store handle per backend (with and without the session set on the handle); every session must see exactly the outputs it sees when served alone on a store of its own; " +
			"non-trivial = at least two distinct accepted triples written and read back (a, b) / at least two sessions served at least twice each (c); distinct = distinct sets of triples / id sets and interleavings",
		Runs:       map[string]int{"quick": 20000, "thorough": 6000000},
		MaxSeconds: map[string]int{"quick": 40, "thorough": 900},
		Run:        runC11,
		Prefix: func(tier string, i uint64) []uint64 {
			if i < 4 {
				return []uint64{1, i}
			}
			if i%4 == 0 {
				return []uint64{2}
			}
			return []uint64{0}
		},
		Assumptions: []string{
			"triples a backend rejects with an error are skipped on that backend (the property covers ids and keys the backend accepts)",
			"no language is selected; values are unique and tagged with their triple",
		},
		Real:       []string{"db", "db/mem", "db/fs (compiled against the simulated os)", "db/postgres", "engine, vm, render, state, cache, persist, resource (sub-batch c)"},
		Stub:       []string{"store client (seeded adversarial generator)", "OS filesystem (simfs)", "Postgres server (pgfake)"},
		FaultKinds: []string{"reopen", "restart", "session_switch_on_shared_handle"},
	})
}

type triple struct {
	typ uint8
	sid string
	key string
}

func (x triple) String() string { return fmt.Sprintf("(%s,%q,%q)", typeNames[x.typ], x.sid, x.key) }
func (x triple) tag(n int) []byte {
	return []byte(fmt.Sprintf("T<%d|%x|%x|%d>", x.typ, x.sid, x.key, n))
}

func tagTriple(v []byte) (uint8, string, string, bool) {
	s := string(v)
	if !strings.HasPrefix(s, "T<") {
		return 0, "", "", false
	}
	var typ, n int
	var sidx, keyx string
	parts := strings.Split(strings.TrimSuffix(s[2:], ">"), "|")
	if len(parts) != 4 {
		return 0, "", "", false
	}
	fmt.Sscanf(parts[0], "%d", &typ)
	sidx, keyx = parts[1], parts[2]
	fmt.Sscanf(parts[3], "%d", &n)
	sid := make([]byte, len(sidx)/2)
	fmt.Sscanf(sidx, "%x", &sid)
	key := make([]byte, len(keyx)/2)
	fmt.Sscanf(keyx, "%x", &key)
	return uint8(typ), string(sid), string(key), true
}

// same triple as far as the store is specified to distinguish: session only matters for sessioned types
func sameTriple(a, b triple) bool {
	if a.typ != b.typ || a.key != b.key {
		return false
	}
	if sessioned(a.typ) {
		return a.sid == b.sid
	}
	return true
}

var advSessions = []string{"", "a", "a.b", "b", "a/..", "../x", "a/../../b", ".", "..", "1", "@a", "a_nor", "x\x00", "P", "\xff", "a.", ".a", "Pa", "a/b"}
var advKeys = []string{"c", "b.c", "a.b", "foo", "foo_nor", "1foo", "@foo", "Pfoo", "foo.bin", ".", "..", "../x", "a/b", "x\x00y", "\xff\xfe", "foo_eng", "4foo", "Pa.c", "@a.c", "a.c", ".c", "b", "c.", "a.b.c", "../../escape", "/abs"}

// collision shapes that known findings are keyed on
func collisionShape(m *medium, reader, owner triple) string {
	sk := func(x triple) string {
		if sessioned(x.typ) && x.sid != "" {
			return x.sid + "." + x.key
		}
		return x.key
	}
	if reader.typ == owner.typ && sk(reader) == sk(owner) {
		return "session-key-concatenation"
	}
	if m.kind == world.BackFs || m.kind == world.BackFsBin {
		fk := func(x triple) string {
			k := x.key
			if m.kind == world.BackFsBin {
				k = base64.StdEncoding.EncodeToString([]byte(x.key))
			}
			if sessioned(x.typ) && x.sid != "" {
				return x.sid + "." + k
			}
			return k
		}
		name := func(x triple) string { return string(rune(x.typ+0x30)) + fk(x) }
		alt := fk(reader)
		if reader.typ == tBin {
			alt += ".bin"
		}
		if alt == name(owner) {
			return "fs-legacy-fallback-name"
		}
		if strings.Contains(name(reader)+name(owner)+alt, "/") {
			if path.Clean("/d/"+name(reader)) == path.Clean("/d/"+name(owner)) || path.Clean("/d/"+alt) == path.Clean("/d/"+name(owner)) {
				return "fs-path-cleaning"
			}
		}
	}
	return "other"
}

func runC11(c *core.Ctx) *core.Outcome {
	t := c.T
	o := core.NewOutcome()
	mode := t.Int(3)
	if mode == 1 {
		return c11Sweep(c, o, t.Int(4))
	}
	if mode == 2 {
		return c11Engine(c, o)
	}
	kind := t.Int(4)
	m := newMedium(kind)
	defer m.close()
	nh := 2
	if kind == world.BackMem {
		nh = 1
	}
	for i := 0; i < nh; i++ {
		h, err := m.open()
		if err != nil {
			panic(err)
		}
		m.handles = append(m.handles, h)
	}
	nt := t.Range(2, 5)
	var ts []triple
	for i := 0; i < nt; i++ {
		t.Begin("triple")
		x := triple{typ: []uint8{tState, tUser, tTpl, tBin, tMenu, tStatic}[t.Weighted(5, 5, 2, 2, 1, 1)]}
		x.sid = advSessions[t.Int(len(advSessions))]
		x.key = advKeys[t.Int(len(advKeys))]
		if t.Chance(1, 3) && i > 0 {
			// derive from an earlier triple: move the boundary between session and key
			p := ts[t.Int(len(ts))]
			x.typ = p.typ
			full := p.sid + "." + p.key
			if cut := strings.Index(full, "."); cut >= 0 && t.Chance(1, 2) {
				if j := strings.LastIndex(full, "."); j > 0 {
					x.sid, x.key = full[:j], full[j+1:]
				}
			}
		}
		t.End()
		if x.key == "" {
			x.key = "k"
		}
		ts = append(ts, x)
	}
	var trace []string
	accepted := map[int]bool{}
	latest := map[int][]byte{}
	n := 0
	ctx := context.Background()
	var vios []*core.Violation
	addV := func(class string, step int, attrs map[string]string, format string, a ...interface{}) {
		vios = append(vios, &core.Violation{Class: class, Step: step, Attrs: attrs, Msg: fmt.Sprintf(format, a...)})
	}
	readCheck := func(step int, hi int, ri int) {
		x := ts[ri]
		h := m.handles[hi%len(m.handles)]
		h.SetPrefix(x.typ)
		h.SetSession(x.sid)
		var got []byte
		var err error
		pm, pat := world.Guard(func() { got, err = h.Get(ctx, []byte(x.key)) })
		trace = append(trace, fmt.Sprintf("h%d Get%s", hi, x))
		if pm != "" {
			addV("panic:"+pat, step, map[string]string{"site": pat}, "Get%s on %s panicked: %s", x, m.name, pm)
			return
		}
		if err != nil {
			return
		}
		ty, sid, key, ok := tagTriple(got)
		if !ok {
			return
		}
		owner := triple{ty, sid, key}
		if sameTriple(owner, x) {
			if accepted[ri] && !bytes.Equal(got, latest[ri]) {
				// an older value of the same triple: not an isolation matter
			}
			return
		}
		shape := collisionShape(m, x, owner)
		addV("cross-data", step, map[string]string{"shape": shape, "backend": m.name},
			"on %s a read of %s returned the value written for %s (collision shape: %s)", m.name, x, owner, shape)
	}
	nops := t.Range(nt, 3*nt+4)
	for i := 0; i < nops; i++ {
		t.Begin("op")
		op := t.Weighted(5, 5, 1)
		ri := t.Int(len(ts))
		hi := t.Int(2)
		t.End()
		if i < nt {
			// every triple is written first, except some that stay read-only probes
			ri = i
			if op != 2 {
				op = 0
			} else {
				op = 1
			}
		}
		x := ts[ri]
		h := m.handles[hi%len(m.handles)]
		switch op {
		case 0:
			n++
			val := x.tag(n)
			h.SetPrefix(x.typ)
			h.SetSession(x.sid)
			if x.typ&(tBin|tMenu|tTpl|tStatic) != 0 {
				h.SetLock(x.typ, false)
			}
			var err error
			pm, pat := world.Guard(func() { err = h.Put(ctx, []byte(x.key), val) })
			trace = append(trace, fmt.Sprintf("h%d Put%s -> err=%v", hi, x, err != nil))
			if pm != "" {
				addV("panic:"+pat, i, map[string]string{"site": pat}, "Put%s on %s panicked: %s", x, m.name, pm)
				continue
			}
			if m.disk != nil {
				if esc := simfs.TakeEscapes(m.disk.Root()); len(esc) > 0 {
					addV("path-escape", i, map[string]string{"backend": m.name}, "Put%s on %s addressed a path outside the store directory: %q", x, m.name, esc)
				}
				for p := range m.disk.Files() {
					if !strings.HasPrefix(p, "/store/") {
						addV("path-escape", i, map[string]string{"backend": m.name}, "Put%s on %s created %q outside the store directory", x, m.name, p)
					}
				}
			}
			if err == nil {
				accepted[ri] = true
				latest[ri] = val
				for rj := range ts {
					if sameTriple(ts[rj], x) {
						accepted[rj] = true
						latest[rj] = val
					}
				}
			}
		case 1:
			readCheck(i, hi, ri)
		case 2:
			if m.kind != world.BackMem {
				nh, err := m.open()
				if err == nil {
					m.handles[hi%len(m.handles)] = nh
					o.Faults["reopen"]++
					trace = append(trace, fmt.Sprintf("h%d reopen", hi))
				}
			}
		}
	}
	// final reads of every triple through both handles
	for ri := range ts {
		readCheck(nops, ri, ri)
	}
	// per-session listing (filesystem, Postgres): no entry tagged with another session or another data type
	if (m.kind == world.BackFs || m.kind == world.BackFsBin || m.kind == world.BackPg) && len(vios) == 0 {
		for ri, x := range ts {
			if !sessioned(x.typ) || x.sid == "" || !accepted[ri] {
				continue
			}
			h := m.handles[0]
			h.SetPrefix(x.typ)
			h.SetSession(x.sid)
			// a caller that has seen enough stops reading and drops the listing, without Close
			stopAfter := 0
			if t.Chance(1, 3) {
				stopAfter = t.Range(1, 2)
			}
			pm, pat := world.Guard(func() {
				d, err := h.Dump(ctx, []byte{})
				if err != nil {
					return
				}
				for k := 0; k < 1000; k++ {
					if stopAfter > 0 && k == stopAfter {
						o.Probes["listing_abandoned_midway"]++
						return
					}
					kk, vv := d.Next(ctx)
					if kk == nil {
						break
					}
					if ty, sid, key, ok := tagTriple(vv); ok && ty != x.typ {
						addV("cross-type-listing", nops, map[string]string{"backend": m.name},
							"on %s the listing of type %s for session %q contains key %q with the value written for %s: data of another data type", m.name, typeNames[x.typ], x.sid, kk, triple{ty, sid, key})
					} else if ok && sid != x.sid {
						owner := triple{ty, sid, key}
						shape := collisionShape(m, triple{x.typ, x.sid, string(kk)}, owner)
						addV("cross-listing", nops, map[string]string{"shape": shape, "backend": m.name},
							"on %s the listing for session %q (type %s) contains key %q with the value written for %s (shape: %s)", m.name, x.sid, typeNames[x.typ], kk, owner, shape)
					}
				}
				d.Close()
			})
			trace = append(trace, fmt.Sprintf("Dump type=%s sid=%q", typeNames[x.typ], x.sid))
			if pm != "" {
				addV("panic:"+pat, nops, map[string]string{"site": pat}, "Dump for session %q on %s panicked: %s", x.sid, m.name, pm)
			}
		}
	}
	// a listing that is dropped after its first entry, then a one-entry listing of another data type of the
	// same session on the same handle: what the second one yields is its own entry and nothing else
	if (m.kind == world.BackFs || m.kind == world.BackFsBin || m.kind == world.BackPg) && len(vios) == 0 && t.Chance(1, 4) {
		h := m.handles[0]
		sid := "lsA"
		var werr error
		h.SetSession(sid)
		h.SetPrefix(tUser)
		for _, k := range []string{"la1", "la2", "la3", "la4"} {
			if e := h.Put(ctx, []byte(k), triple{tUser, sid, k}.tag(1)); e != nil {
				werr = e
			}
		}
		h.SetPrefix(tState)
		if e := h.Put(ctx, []byte("lz1"), triple{tState, sid, "lz1"}.tag(1)); e != nil {
			werr = e
		}
		if werr == nil {
			o.Probes["scripted_abandoned_listing"]++
			pm, pat := world.Guard(func() {
				h.SetPrefix(tUser)
				if d, err := h.Dump(ctx, []byte{}); err == nil {
					d.Next(ctx) // one entry, then the caller loses interest (no Close)
				}
				h.SetPrefix(tState)
				d, err := h.Dump(ctx, []byte{})
				if err != nil {
					return
				}
				for k := 0; k < 50; k++ {
					kk, vv := d.Next(ctx)
					if kk == nil {
						break
					}
					if ty, s2, key, ok := tagTriple(vv); ok && (ty != tState || s2 != sid) {
						addV("cross-type-listing", nops, map[string]string{"backend": m.name},
							"on %s the listing of type %s for session %q, made after a listing of type %s had been dropped midway, contains key %q with the value written for %s", m.name, typeNames[tState], sid, typeNames[tUser], kk, triple{ty, s2, key})
					}
				}
				d.Close()
			})
			if pm != "" {
				addV("panic:"+pat, nops, map[string]string{"site": pat}, "listing after a dropped listing on %s panicked: %s", m.name, pm)
			}
		}
	}
	na := 0
	for range accepted {
		na++
	}
	o.Nontrivial = na >= 2
	o.Counts["operations"] = len(trace)
	o.Counts["sim_ticks"] = len(trace)
	var tk []string
	for _, x := range ts {
		tk = append(tk, x.String())
	}
	o.States = append(o.States, h64(m.name, strings.Join(tk, ",")))
	o.TraceHash = h64(strings.Join(trace, ";"))
	if len(vios) > 0 {
		o.V = vios[0]
		o.Also = vios[1:]
	}
	if c.WantScenario || o.V != nil {
		o.Scenario = map[string]interface{}{"backend": m.name, "triples": tk, "ops": trace}
	}
	return o
}

// c11Sweep writes every triple over a small adversarial alphabet into one store and reads
// all of them back: a read returning another triple's tag is a collision.
func c11Sweep(c *core.Ctx, o *core.Outcome, kind int) *core.Outcome {
	m := newMedium(kind)
	defer m.close()
	h, err := m.open()
	if err != nil {
		panic(err)
	}
	m.handles = []db.Db{h}
	alpha := []string{"a", ".", "_", "/", "1", "@", "P"}
	maxLen := 2
	if c.Tier == "thorough" {
		maxLen = 3
	}
	strs := []string{""}
	cur := []string{""}
	for l := 0; l < maxLen; l++ {
		var nx []string
		for _, s := range cur {
			for _, a := range alpha {
				nx = append(nx, s+a)
			}
		}
		strs = append(strs, nx...)
		cur = nx
	}
	ctx := context.Background()
	var ts []triple
	for _, ty := range allTypes {
		h.SetLock(ty, false)
		sids := []string{""}
		if sessioned(ty) {
			sids = strs
		}
		for _, sid := range sids {
			for _, key := range strs {
				if key == "" {
					continue
				}
				ts = append(ts, triple{ty, sid, key})
			}
		}
	}
	ok := make([]bool, len(ts))
	for i, x := range ts {
		h.SetPrefix(x.typ)
		h.SetSession(x.sid)
		var err error
		pm, pat := world.Guard(func() { err = h.Put(ctx, []byte(x.key), x.tag(i)) })
		if pm != "" {
			o.Fail("panic:"+pat, i, map[string]string{"site": pat}, "sweep Put%s on %s panicked: %s", x, m.name, pm)
			o.Scenario = map[string]interface{}{"backend": m.name, "mode": "sweep"}
			return o
		}
		ok[i] = err == nil
	}
	var vios []*core.Violation
	seenShape := map[string]int{}
	if m.disk != nil {
		if esc := simfs.TakeEscapes(m.disk.Root()); len(esc) > 0 {
			vios = append(vios, &core.Violation{Class: "path-escape", Attrs: map[string]string{"backend": m.name}, Msg: fmt.Sprintf("sweep on %s addressed %d paths outside the store directory, e.g. %q", m.name, len(esc), esc[0])})
		}
		for p := range m.disk.Files() {
			if !strings.HasPrefix(p, "/store/") {
				vios = append(vios, &core.Violation{Class: "path-escape", Attrs: map[string]string{"backend": m.name}, Msg: fmt.Sprintf("sweep on %s created %q outside the store directory", m.name, p)})
				break
			}
		}
	}
	accepted := 0
	for i, x := range ts {
		if !ok[i] {
			continue
		}
		accepted++
		h.SetPrefix(x.typ)
		h.SetSession(x.sid)
		var got []byte
		var err error
		pm, pat := world.Guard(func() { got, err = h.Get(ctx, []byte(x.key)) })
		if pm != "" {
			vios = append(vios, &core.Violation{Class: "panic:" + pat, Step: i, Attrs: map[string]string{"site": pat}, Msg: fmt.Sprintf("sweep Get%s on %s panicked: %s", x, m.name, pm)})
			break
		}
		if err != nil {
			continue
		}
		ty, sid, key, tagged := tagTriple(got)
		if !tagged {
			continue
		}
		owner := triple{ty, sid, key}
		if sameTriple(owner, x) {
			continue
		}
		shape := collisionShape(m, x, owner)
		seenShape[shape]++
		if seenShape[shape] == 1 {
			vios = append(vios, &core.Violation{Class: "cross-data", Step: i, Attrs: map[string]string{"shape": shape, "backend": m.name},
				Msg: fmt.Sprintf("sweep on %s: a read of %s returned the value written for %s (collision shape: %s)", m.name, x, owner, shape)})
		}
	}
	o.Probes["sweep_triples_"+m.name] = len(ts)
	o.Probes["sweep_accepted_"+m.name] = accepted
	for k, v := range seenShape {
		o.Probes["sweep_collisions_"+k+"_"+m.name] = v
	}
	o.Counts["operations"] = 2 * len(ts)
	o.Counts["sim_ticks"] = 2 * len(ts)
	o.Nontrivial = true
	o.States = append(o.States, h64("sweep", m.name))
	o.TraceHash = h64("sweep", m.name, accepted, fmt.Sprint(seenShape))
	if len(vios) > 0 {
		o.V = vios[0]
		o.Also = vios[1:]
	}
	o.Scenario = map[string]interface{}{"backend": m.name, "mode": "sweep", "alphabet": alpha, "max_len": maxLen, "triples": len(ts), "accepted": accepted, "collisions_by_shape": seenShape}
	return o
}

// engine-level session ids: related by prefix, separator and the characters the backends use in their encodings
var engSessions = []string{"a", "a.b", "b", "ab", "a_b", "a.a", "user1", "user10", "1", "P", "@a", "a_nor", "a.", ".a", "\xff", "a.b.c", "a b", "A", "a ", " a", " ", "a\t", "a\n"}

// c11Engine serves several sessions alternately over one shared store handle and compares each
// with a twin that is served alone on a store of its own.
func c11Engine(c *core.Ctx, o *core.Outcome) *core.Outcome {
	t := c.T
	cfg := genCfg(t)
	cfg.Backend = t.Int(4)
	cfg.SetSession = t.Chance(1, 2)
	cfg.FinishAlways = t.Chance(1, 2)
	if t.Chance(1, 2) {
		cfg.CacheSize = 0
	} else if cfg.CacheSize == 0 {
		cfg.CacheSize = uint32(t.Range(8, 60)) // a capacity the loaded values can exceed
	}
	sharePe := t.Chance(1, 3)
	// or: every session keeps its own persister over the shared handle and selects its session through it
	keepPe := !sharePe && t.Chance(1, 3)
	if keepPe {
		cfg.SetSession = true // the twins served alone select their session on the handle, the shared world through the persister
	}
	p := fullProfile(t, cfg.FlagCount)
	p.EndNodes = t.Chance(1, 3)
	a := app.Generate(t, p)
	if err := a.Validate(); err != nil {
		panic("generator produced ill-formed app: " + err.Error())
	}
	ns := t.Range(2, 3)
	var ids []string
	for len(ids) < ns {
		id := engSessions[t.Int(len(engSessions))]
		if len(ids) > 0 && t.Chance(1, 3) {
			// derived from an earlier id
			b := ids[t.Int(len(ids))]
			id = []string{b + "." + b, b + "0", b + ".", b + "_" + b, strings.ToUpper(b), b + " ", " " + b, strings.TrimSpace(b) + "\n"}[t.Int(8)]
		}
		dup := false
		for _, x := range ids {
			if x == id {
				dup = true
			}
		}
		if dup {
			id = fmt.Sprintf("%s%d", id, len(ids)) // an exhausted tape draws the same id again and again
		}
		ids = append(ids, id)
	}
	if sharePe {
		cfg.FinishAlways = true // a gateway that reuses its persister has to save/flush it after every request, failed or not
	}
	scfg := cfg
	scfg.SharePersister = sharePe // only the shared world: the twins are served alone, each by its own persister
	scfg.KeepPersister = keepPe
	if keepPe {
		o.Probes["engine_level_run_with_a_kept_persister_per_session"]++
	}
	shared := world.New(a, scfg)
	shared.UseBackend()
	shared.ShareHandle()
	if sharePe {
		o.Probes["engine_level_run_with_shared_flushing_persister"]++
	}
	defer shared.Close()
	var S, T []*world.Sess
	var solos []*world.World
	for _, id := range ids {
		S = append(S, shared.NewSession(id, true))
		w := world.New(a, cfg)
		w.UseBackend()
		solos = append(solos, w)
		T = append(T, w.NewSession(id, true))
	}
	defer func() {
		for _, w := range solos {
			w.Close()
		}
	}()
	all := append([]*world.World{shared}, solos...)
	// the listed finding seen through the engine: on the plain filesystem store without a session on the
	// handle the state record of session X is the file "@X", which is also the legacy fallback name for
	// the state record of session "@X"
	classify := func(at string) (string, map[string]string) {
		if cfg.Backend == world.BackFs && !cfg.SetSession {
			for _, x := range ids {
				for _, y := range ids {
					if y == "@"+x {
						return "cross-data", map[string]string{"shape": "fs-legacy-fallback-name", "level": "engine"}
					}
				}
			}
		}
		return "cross-session-interference", map[string]string{"backend": world.BackendNames[cfg.Backend], "at": at, "shared_persister": fmt.Sprint(sharePe)}
	}
	served := make([]int, ns)
	dead := make([]bool, ns)
	nreq := t.Range(4, 16)
	lastK := -1
	var order []byte
	for i := 0; i < nreq; i++ {
		t.Begin("request")
		k := t.Int(ns)
		var in []byte
		if served[k] > 0 {
			cur := ""
			if pp, _ := T[k].Position(); len(pp) > 0 {
				cur = pp[len(pp)-1]
			}
			in = genInput(t, a, cur, 1)
		}
		t.End()
		if dead[k] {
			continue
		}
		if lastK >= 0 && lastK != k {
			o.Faults["session_switch_on_shared_handle"]++
		}
		lastK = k
		order = append(order, byte('0'+k))
		ss := S[k].Request(in, true)
		st := T[k].Request(in, true)
		served[k]++
		o.Counts["requests"]++
		if served[k] > 1 {
			o.Faults["restart"]++
		}
		if strings.HasPrefix(st.ExecErr, "build:") || strings.HasPrefix(ss.ExecErr, "build:") {
			if (st.ExecErr == "") != (ss.ExecErr == "") {
				return finish(o, all...).Fail("cross-session-interference", i, map[string]string{"backend": world.BackendNames[cfg.Backend], "at": "build"},
					"session %q (ids %q, shared handle, set_session=%v): building the engine gave %q on the shared handle and %q alone", ids[k], ids, cfg.SetSession, ss.ExecErr, st.ExecErr)
			}
			o.Probes["id_refused_by_backend"]++
			dead[k] = true
			continue
		}
		if st.Panic != "" || ss.Panic != "" {
			o.Probes["foreign_panic"]++
			break
		}
		// what the session holds after the request, not only what it showed: symbols per level and the
		// value kept for the end of the session
		if ss.ExecErr == "" && st.ExecErr == "" && ss.Finished && st.Finished && ss.FinishErr == "" && st.FinishErr == "" {
			if ra, rb := storedState(shared, S[k]), storedState(solos[k], T[k]); ra != rb {
				o.Scenario = map[string]interface{}{"shared": scenario(shared, nil), "alone": scenario(solos[k], nil), "ids": ids, "order": string(order)}
				class, attrs := classify("stored-record")
				return finish(o, all...).Fail(class, i, attrs,
					"request %d (session %q, its request #%d; sessions %q served in order %s over one %s handle, set_session=%v, shared flushing persister=%v): the stored record of the session is {%s}; served alone it is {%s}",
					i, ids[k], served[k]-1, ids, string(order), world.BackendNames[cfg.Backend], cfg.SetSession, sharePe, ra, rb)
			}
			o.Probes["stored_record_compared"]++
		}
		if ss.Out != st.Out || ss.Cont != st.Cont || (ss.ExecErr == "") != (st.ExecErr == "") || (ss.FlushErr == "") != (st.FlushErr == "") || (ss.FinishErr == "") != (st.FinishErr == "") {
			if c.WantScenario || true {
				o.Scenario = map[string]interface{}{"shared": scenario(shared, nil), "alone": scenario(solos[k], nil), "ids": ids, "order": string(order)}
			}
			class, attrs := classify("request")
			return finish(o, all...).Fail(class, i, attrs,
				"request %d (session %q, its request #%d, input %s; sessions %q served in order %s over one %s handle, set_session=%v, shared flushing persister=%v): output %s cont=%v exec=%q flush=%q finish=%q; the same session served alone on its own store: output %s cont=%v exec=%q flush=%q finish=%q",
				i, ids[k], served[k]-1, short(string(in)), ids, string(order), world.BackendNames[cfg.Backend], cfg.SetSession, sharePe, short(ss.Out), ss.Cont, ss.ExecErr, ss.FlushErr, ss.FinishErr, short(st.Out), st.Cont, st.ExecErr, st.FlushErr, st.FinishErr)
		}
	}
	two := 0
	for _, n := range served {
		if n >= 2 {
			two++
		}
	}
	o.Nontrivial = two >= 2
	o.States = append(o.States, h64(strings.Join(ids, "|"), string(order), cfg.Backend, cfg.SetSession))
	o.Probes["engine_level_run"]++
	if c.WantScenario {
		o.Scenario = map[string]interface{}{"shared": scenario(shared, nil), "ids": ids, "order": string(order)}
	}
	return finish(o, all...)
}
