package checks

import (
	"fmt"
	"strings"

	"visim/app"
	"visim/core"
	"visim/world"
)

func init() {
	core.Register(&core.Check{
		ID:    "C01",
		Level: "exploration",
		Rule: "one run = one generated application + input history served first by an unsized twin (OutputSize 0) and then by a sized twin whose OutputSize is drawn around the unlimited length of one of the pages (len-3..len+3), tiny, or generous; " +
			"every successful Flush of the sized twin must be <= OutputSize bytes and, where both twins are at the same position, must not be a silently truncated version of the unsized page; " +
			"non-trivial = at least one sized page within 8 bytes of the limit or a render refused for size; distinct = distinct (node, page length - limit) sequences",
		Runs:       map[string]int{"quick": 50000, "thorough": 2500000},
		MaxSeconds: map[string]int{"quick": 40, "thorough": 900},
		Run:        runC01,
		Assumptions: []string{
			"the exit value appended at a graceful session end counts as part of the page handed to the client",
			"the check does not demand that a page that would fit is rendered (the property does not)",
		},
		Real:       realAll,
		Stub:       stubAll,
		FaultKinds: []string{"restart", "ext_error", "ext_oversize", "client_garbage", "client_browse_oob", "first_func_blocks_request"},
	})
}

func runC01(c *core.Ctx) *core.Outcome {
	t := c.T
	o := core.NewOutcome()
	cfg := genCfg(t)
	cfg.OutputSize = 0
	cfg.Backend = world.BackMem
	cfg.FinishAlways = true // both twins must live through the same history even when a render is refused
	p := fullProfile(t, cfg.FlagCount)
	p.MaxRows = 14
	// a MOVE behind matched INCMP lines makes the matched target's code run at the MOVE's target: legal, but
	// the comparison with the unsized twin below reasons about "the page of node X" from X's own code
	p.FallMove = false
	p.BrowseSwap = true
	p.NoTplEnd = true
	p.HugePages = t.Chance(1, 12) // page lengths around the 16-bit boundary
	a := app.Generate(t, p)
	if err := a.Validate(); err != nil {
		panic("generator produced ill-formed app: " + err.Error())
	}
	nreq := t.Range(2, 12)
	persisted := t.Chance(1, 2)
	// an engine per request with a pre-VM function that now and then turns a request away with a notice
	// of a drawn length: that notice is output handed to the client like any page
	cfg.First = persisted && t.Chance(1, 4)
	blocks := map[int]string{}

	wu := world.New(a, cfg)
	wu.UseMem()
	U := wu.NewSession("s", persisted)
	var inputs [][]byte
	var lens []int
	for i := 0; i < nreq; i++ {
		t.Begin("request")
		var in []byte
		if i > 0 {
			cur := ""
			if pp, _ := U.Position(); len(pp) > 0 {
				cur = pp[len(pp)-1]
			}
			if t.Chance(1, 12) {
				// long but well-formed input: echoed by the invalid-input prefix
				in = []byte(strings.Repeat("7", t.Range(30, 255)))
			} else {
				in = genInput(t, a, cur, 1)
			}
		}
		if cfg.First && t.Chance(1, 5) {
			blocks[i] = padToLen("barred:", t.Range(1, 150))
			U.BlockFirstNext = blocks[i]
		}
		t.End()
		inputs = append(inputs, in)
		st := U.Request(in, persisted)
		U.BlockFirstNext = ""
		if st.Panic != "" {
			o.Probes["foreign_panic"]++
			break
		}
		if st.ExecErr == "" && st.FlushErr == "" && len(st.Out) > 0 {
			lens = append(lens, len(st.Out))
		}
		if blocks[i] != "" && st.ExecErr == "" {
			continue // turned away: the session has not moved and has not ended
		}
		if (st.ExecErr != "" && !st.Cont) || (st.ExecErr == "" && !st.Cont) {
			break
		}
	}
	// choose the output size
	t.Begin("size")
	var size int
	switch t.Weighted(6, 2, 1, 1) {
	case 0:
		if len(lens) > 0 {
			size = lens[t.Int(len(lens))] + t.Range(0, 6) - 3
		} else {
			size = t.Range(1, 40)
		}
	case 1:
		size = t.Range(20, 120)
	case 2:
		size = t.Range(1, 10)
	case 3:
		size = t.Range(120, 400)
	}
	if size < 1 {
		size = 1
	}
	t.End()
	cfgS := cfg
	cfgS.OutputSize = uint32(size)
	ws := world.New(a, cfgS)
	ws.UseMem()
	S := ws.NewSession("s", persisted)
	near := 0
	for i := range U.Steps {
		in := inputs[i]
		us := &U.Steps[i]
		S.BlockFirstNext = blocks[i]
		ss := S.Request(in, persisted)
		S.BlockFirstNext = ""
		o.Counts["requests"]++
		if ss.Panic != "" {
			o.Probes["foreign_panic"]++
			break
		}
		if blocks[i] != "" {
			o.Faults["first_func_blocks_request"]++
			if ss.ExecErr == "" && ss.FlushErr == "" && len(ss.Out) > size {
				return finishC01(o, c, wu, ws, size).Fail("oversize-output", i, map[string]string{"at": "notice-of-the-pre-vm-function"},
					"request %d input %s: the pre-VM function turned the request away with a notice of %d bytes; %d bytes were handed to the client with OutputSize=%d: %s", i, short(string(in)), len(blocks[i]), len(ss.Out), size, short(ss.Out))
			}
			if ss.FlushErr != "" {
				o.Probes["render_refused"]++
				o.Probes["pre_vm_notice_refused_for_size"]++
				near++
			} else if ss.ExecErr == "" {
				o.Probes["pre_vm_notice_delivered"]++
				if size-len(ss.Out) <= 8 {
					near++
				}
			}
			if ss.ExecErr != "" && !ss.Cont {
				break
			}
			continue
		}
		if ss.ExecErr != "" || ss.FlushErr != "" {
			if ss.FlushErr != "" {
				o.Probes["render_refused"]++
				near++
			}
			if ss.ExecErr != "" && !ss.Cont {
				break
			}
			if ss.FlushErr != "" {
				// the page was not delivered; the session itself goes on
				if us.ExecErr != "" || !us.Cont {
					break
				}
				continue
			}
			continue
		}
		pg := app.ParsePage(ss.Out)
		o.States = append(o.States, h64(pg.Node, len(ss.Out)-size))
		if len(ss.Out) > size {
			end := "no"
			pageFits := "no"
			if !ss.Cont {
				end = "yes"
				// at a graceful end the engine appends the exit value (an external result) to the page
				best := ""
				for _, cl := range S.CallLog {
					if len(cl.Out) > len(best) && strings.HasSuffix(ss.Out, cl.Out) {
						best = cl.Out
					}
				}
				if best != "" && len(ss.Out)-len(best) <= size {
					pageFits = "yes"
				}
			}
			return finishC01(o, c, wu, ws, size).Fail("oversize-output", i, map[string]string{"session_end": end, "page_without_exit_value_fits": pageFits},
				"request %d input %s: page of %d bytes handed to the client with OutputSize=%d (session_end=%s, page_without_exit_value_fits=%s): %s", i, short(string(in)), len(ss.Out), size, end, pageFits, short(ss.Out))
		}
		if size-len(ss.Out) <= 8 {
			near++
			o.Probes["page_within_8_of_limit"]++
		}
		if len(ss.Out) == size {
			o.Probes["page_exactly_at_limit"]++
		}
		if pg.Prefix != "" {
			o.Probes["sized_page_with_error_prefix"]++
		}
		if !ss.Cont && !us.Cont && us.ExecErr == "" && us.FlushErr == "" && i < len(U.PosLog) && U.PosLog[i].NCalls == len(S.CallLog) {
			// the final output of a session: the page of the end node followed by the exit value. If the
			// page does not fit, the render has to fail - handing out the exit value alone is a page
			// truncated to nothing without any error
			ug := app.ParsePage(us.Out)
			if ug.OK && ug.Node != "" && !strings.Contains(ss.Out, "@"+ug.Node) && ss.Out != "" {
				return finishC01(o, c, wu, ws, size).Fail("silent-truncation", i, map[string]string{"at": "session-end-page-dropped"},
					"request %d input %s OutputSize=%d: the session ends at node %s; without a limit the client receives %s, with the limit it receives %s and no error: the page is missing", i, short(string(in)), size, ug.Node, short(us.Out), short(ss.Out))
			}
			o.Probes["final_output_compared_with_unsized"]++
		}
		if !ss.Cont || !us.Cont || us.ExecErr != "" {
			break
		}
		// silent truncation: compare with the unsized twin at the same position
		psn, is := S.Position()
		if us.FlushErr != "" || us.Out == "" {
			continue
		}
		if i >= len(U.PosLog) || strings.Join(U.PosLog[i].Path, "/") != strings.Join(psn, "/") || U.PosLog[i].Idx != is || U.PosLog[i].NCalls != len(S.CallLog) {
			o.Probes["twins_diverged_in_position"]++
			continue
		}
		ug := app.ParsePage(us.Out)
		if !pg.OK || !ug.OK {
			continue
		}
		if msg := truncationCheck(a, pg, ug, ss.Out, us.Out); msg != "" {
			return finishC01(o, c, wu, ws, size).Fail("silent-truncation", i, nil,
				"request %d input %s OutputSize=%d: %s; sized=%s unsized=%s", i, short(string(in)), size, msg, short(ss.Out), short(us.Out))
		}
		o.Probes["compared_with_unsized"]++
	}
	o.Nontrivial = near > 0
	for _, cl := range S.CallLog {
		if cl.Err {
			o.Faults["ext_error"]++
		}
	}
	for _, st := range S.Steps {
		if st.ExecErr != "" && st.Cont {
			o.Faults["client_garbage"]++
		}
		if st.Fresh {
			o.Faults["restart"]++
		}
	}
	return finishC01(o, c, wu, ws, size)
}


func nodeHasSink(a *app.App, name string) (mapSink bool, msink bool) {
	n := a.Node(name)
	if n == nil {
		return false, false
	}
	for _, in := range n.Code {
		if in.Op == app.MSINK {
			msink = true
		}
		if in.Op == app.MAP {
			if e := a.ExtSym(in.A); e != nil && e.Size == 0 {
				mapSink = true
			}
		}
		if in.Op == app.RELOAD {
			if e := a.ExtSym(in.A); e != nil && e.Size == 0 {
				mapSink = true
			}
		}
	}
	return
}

// truncationCheck compares a sized page with the unsized page of the same position.
func truncationCheck(a *app.App, s, u app.Page, sraw, uraw string) string {
	if s.Node != u.Node {
		return fmt.Sprintf("twins at the same position render different nodes %s / %s", s.Node, u.Node)
	}
	mapSink, msink := nodeHasSink(a, s.Node)
	if !mapSink && !msink {
		if sraw != uraw {
			return "page of a node without sink differs from the unsized page"
		}
		return ""
	}
	if s.Prefix != u.Prefix {
		return "error prefix differs"
	}
	for k, v := range u.Vals {
		if sv, ok := s.Vals[k]; !ok || sv != v {
			return fmt.Sprintf("non-sink value %s shown as %q, unsized %q", k, sv, v)
		}
	}
	if mapSink {
		if u.Sink != nil {
			if s.Sink == nil {
				return "sink section missing"
			}
			rows := map[string]bool{}
			for _, r := range strings.Split(*u.Sink, "\n") {
				rows[r] = true
			}
			if *s.Sink != "" {
				for _, r := range strings.Split(*s.Sink, "\n") {
					if !rows[r] {
						return fmt.Sprintf("shown row %q is not a whole row of the content", r)
					}
				}
			}
		}
		// ordinary menu entries of the unsized page must all be present
		have := map[string]bool{}
		for _, l := range s.Menu {
			have[l] = true
		}
		for _, l := range u.Menu {
			if !have[l] {
				return fmt.Sprintf("menu entry %q of the unsized page is missing", l)
			}
		}
	}
	if msink {
		// every line after the template (apart from browse entries) must be a whole menu entry
		all := map[string]bool{}
		for _, l := range u.Menu {
			all[l] = true
		}
		n := a.Node(s.Node)
		browse := map[string]bool{}
		for _, in := range n.Code {
			if in.Op == app.MNEXT || in.Op == app.MPREV {
				browse[in.B] = true
			}
		}
		for _, l := range s.Menu {
			if all[l] || l == "" {
				continue
			}
			isBrowse := false
			for b := range browse {
				if strings.HasPrefix(l, b) {
					isBrowse = true
				}
			}
			if !isBrowse {
				return fmt.Sprintf("line %q is neither a whole menu entry nor a browse entry", l)
			}
		}
	}
	return ""
}

func finishC01(o *core.Outcome, c *core.Ctx, wu, ws *world.World, size int) *core.Outcome {
	if c.WantScenario || o.V != nil {
		o.Scenario = map[string]interface{}{"sized": scenario(ws, nil), "unsized": scenario(wu, nil)["sessions"], "output_size": size}
	}
	return finish(o, wu, ws)
}

// padToLen returns a text of exactly n bytes starting with tag (cut when n is shorter).
func padToLen(tag string, n int) string {
	for len(tag) < n {
		tag += "x"
	}
	return tag[:n]
}
