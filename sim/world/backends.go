package world

import (
	"context"
	"os"

	"git.defalsify.org/vise.git/db"
	fsdb "git.defalsify.org/vise.git/db/fs"
	memdb "git.defalsify.org/vise.git/db/mem"
	pgdb "git.defalsify.org/vise.git/db/postgres"

	"visim/pgfake"
	"visim/simfs"
)

// UseMem installs the memory backend: the memDb object itself is the durable medium of a
// session (a restart keeps the object and builds everything else anew).
func (w *World) UseMem() {
	stores := map[int]db.Db{}
	w.NewStore = func(s *Sess) (db.Db, error) {
		if st, ok := stores[s.Idx]; ok {
			return st, nil
		}
		st := memdb.NewMemDb()
		if err := st.Connect(context.Background(), ""); err != nil {
			return nil, err
		}
		stores[s.Idx] = st
		return st, nil
	}
	w.Peek = w.NewStore
}

// UseFs installs the real db/fs backend on a simulated disk (one directory shared by all
// sessions; every restart opens a fresh handle).
func (w *World) UseFs(binary bool) *simfs.FS {
	if w.Disk == nil {
		w.Disk = simfs.New()
	}
	w.NewStore = func(s *Sess) (db.Db, error) {
		st := fsdb.NewFsDb()
		if binary {
			st = st.WithBinary()
		}
		if err := st.Connect(context.Background(), w.Disk.Root()+"/state"); err != nil {
			return nil, err
		}
		return st, nil
	}
	w.Peek = w.NewStore
	return w.Disk
}

// UsePg installs the real db/postgres backend on the fake server (every restart opens a
// fresh connection; the previous one is dropped without Close, as a dying process would).
func (w *World) UsePg() *pgfake.Server {
	if w.Pg == nil {
		w.Pg = pgfake.NewServer()
	}
	conns := map[[2]int]*pgfake.Conn{}
	w.NewStore = func(s *Sess) (db.Db, error) {
		// a worker that opens a new handle for a session has dropped the one it had (another worker's stays)
		k := [2]int{s.Idx, s.Worker}
		if c := conns[k]; c != nil {
			c.Drop()
		}
		c := w.Pg.Connect()
		conns[k] = c
		st := pgdb.NewPgDb().WithConnection(c)
		return st, nil
	}
	w.Peek = func(s *Sess) (db.Db, error) {
		return pgdb.NewPgDb().WithConnection(w.Pg.Connect()), nil
	}
	return w.Pg
}

// UseBackend installs the backend named by cfg.Backend.
func (w *World) UseBackend() {
	switch w.Cfg.Backend {
	case BackFs:
		w.UseFs(false)
	case BackFsBin:
		w.UseFs(true)
	case BackPg:
		w.UsePg()
	default:
		w.UseMem()
	}
}

// Close releases the simulated disk.
func (w *World) Close() {
	if w.Disk != nil {
		w.Disk.Unmount()
	}
	for _, d := range w.scratchDirs {
		os.RemoveAll(d)
	}
	w.scratchDirs = nil
}

// ShareHandle makes every session of the world (and every engine built for it) use ONE store
// handle, as a gateway that keeps a single connection or directory handle does. Call it after
// the backend has been installed.
func (w *World) ShareHandle() {
	inner := w.NewStore
	var h db.Db
	w.NewStore = func(s *Sess) (db.Db, error) {
		if h != nil {
			return h, nil
		}
		st, err := inner(s)
		if err != nil {
			return nil, err
		}
		h = st
		return h, nil
	}
	if w.Cfg.Backend == BackMem {
		// the memory backend's medium IS the handle: observe through it
		w.Peek = w.NewStore
	}
}
