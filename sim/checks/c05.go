package checks

import (
	"fmt"
	"strings"

	"visim/app"
	"visim/core"
	"visim/tape"
	"visim/world"
)

func init() {
	core.Register(&core.Check{
		ID:    "C05",
		Level: "exploration",
		Rule: "one run = one generated application with LOAD/RELOAD/MAP at depths 0..6, the same symbols loaded in several nodes, declared sizes 0..65535, scripted results of any length (empty, at the limit, limit+1, >= 65536, multi-row) and failing external calls + a history that descends, ascends, rewinds and re-enters, with restarts; " +
			"the external call log, the symbol tables per stack level and the values shown on the page must equal the reference model's after every request; templates that reference a symbol the node does not map must fail to render; " +
			"non-trivial = at least one LOAD skipped because the symbol was visible, one scope released by an ascent and one RELOAD; distinct = distinct sequences of (path, symbol table shape)",
		Runs:       map[string]int{"quick": 40000, "thorough": 6000000},
		MaxSeconds: map[string]int{"quick": 40, "thorough": 900},
		Run:        runC05,
		Assumptions: []string{
			"requests on which the position differs from the model's are left to C03/C04 (skipped_upstream)",
			"a LOAD result over its limit or over the cache capacity ends the request with an error; the session is compared no further",
			"single-candidate routing after each HALT, so that a wrong symbol table cannot be explained by another line having fired",
		},
		Real:       realAll,
		Stub:       append(append([]string{}, stubAll...), "reference model refvm (oracle)"),
		FaultKinds: []string{"restart", "ext_error", "ext_oversize", "ext_empty"},
	})
}

func c05Profile(flagCount uint32) app.Profile {
	return app.Profile{
		MaxNodes: 7, MaxExt: 4, FlagCount: flagCount,
		Sinks: true, Menus: true,
		ExtErrPct: 6, OversizePct: 6, EmptyPct: 12, BigValues: true,
		SingleRoute: true, RelTargets: true, RelWeight: 6,
		MaxRows: 5, CatchShape: -1, NegMapProbe: true, Catch: true, EndNodes: true,
	}
}

func runC05(c *core.Ctx) *core.Outcome {
	t := c.T
	o := core.NewOutcome()
	cfg := genCfg(t)
	cfg.Backend = world.BackMem
	cfg.FinishAlways = true
	cfg.OutputSize = 0
	cfg.Debug = t.Chance(1, 4) // an attached debugger looks, it does not touch
	if t.Chance(3, 4) {
		cfg.CacheSize = 0
	}
	if t.Chance(1, 4) {
		// with a (generous) output size the renderer keeps its own record of what is mapped for the sizer
		cfg.OutputSize = uint32(t.Range(300, 3000))
	}
	prof := c05Profile(cfg.FlagCount)
	prof.ManySyms = t.Chance(1, 20)
	prof.ReloadAfterMap = true
	a := app.Generate(t, prof)
	if err := a.Validate(); err != nil {
		panic("generator produced ill-formed app: " + err.Error())
	}
	persisted := t.Chance(1, 2)
	r := newModelRun(a, cfg, persisted)
	defer r.w.Close()
	nreq := t.Range(2, 14)
	skippedLoad, released, reloads := 0, 0, 0
	for i := 0; i < nreq; i++ {
		t.Begin("request")
		var in []byte
		cur := r.curNode()
		if i > 0 {
			in = genInput(t, a, cur, 1)
		}
		t.End()
		levelsBefore := len(r.m.Levels)
		ncBefore := len(r.s.CallLog)
		ob := r.request(in, persisted)
		o.Counts["requests"]++
		if persisted && i > 0 {
			o.Faults["restart"]++
		}
		if ob.panic {
			o.Probes["foreign_panic"]++
			break
		}
		if ob.refused {
			continue
		}
		if ob.exp.Skip {
			o.Counts["out_of_envelope"]++
			break
		}
		for _, cl := range ob.exp.Calls {
			if cl.Err {
				o.Faults["ext_error"]++
			}
		}
		for _, cl := range r.s.CallLog[ncBefore:] {
			if !cl.Err && cl.Out == "" {
				o.Faults["ext_empty"]++
			}
		}
		// independent of the model: a result larger than its limit is never shown
		if v := c05RejectedShown(a, r, ob.st.Out); v != "" {
			return finishModel(o, c, r).Fail("over-limit-shown", i, nil, "request %d input %s: the output contains %s, an external result that was larger than the declared size of its symbol: %s", i, short(string(in)), short(v), short(ob.st.Out))
		}
		if v := c05RejectedKept(a, r); v != "" {
			return finishModel(o, c, r).Fail("over-limit-kept-as-last-value", i, nil, "request %d input %s: the cache keeps %s (%d bytes) as its last value although it was larger than the declared size of its symbol and refused", i, short(string(in)), short(v), len(v))
		}
		// independent of the model: no stored value may exceed its declared limit
		if r.s.Ca != nil {
			for l, m := range r.s.Ca.Cache {
				for k, v := range m {
					if lim, ok := r.s.Ca.Sizes[k]; ok && lim > 0 && len(v) > int(lim) {
						return finishModel(o, c, r).Fail("over-limit-stored", i, nil, "request %d input %s: level %d holds %s with %d bytes under a declared limit of %d", i, short(string(in)), l, k, len(v), lim)
					}
				}
			}
		}
		if ob.exp.ExecErr {
			// over-limit / capacity: the request must fail and the value must not be stored
			if ob.exp.ErrWhy == "over-limit" {
				o.Faults["ext_oversize"]++
				// the request must fail: an execution error, or (while an earlier external failure
				// is still flagged) the catch node with the error shown
				if ob.st.ExecErr == "" && !(last(ob.actPath) == "_catch" && ob.page.Prefix != "") {
					return finishModel(o, c, r).Fail("over-limit-accepted", i, nil, "request %d input %s: an external result larger than the declared size was accepted (page %s)", i, short(string(in)), short(ob.st.Out))
				}
				// the session goes on after the refusal (restart from the top, or the catch node): what it
				// shows from here on is not predicted by the model, but the refused result must not be in it
				if v := c05Aftermath(t, a, r, persisted, o); v != nil {
					o.V = v
					return finishModel(o, c, r)
				}
			}
			break
		}
		if ob.st.ExecErr != "" {
			if !ob.movesAgree || !ob.callsAgree {
				o.Counts["skipped_upstream"]++
			} else {
				o.Probes["unexpected_exec_error"]++
				return finishModel(o, c, r).Fail("unexpected-exec-error", i, nil, "request %d input %s at %s: Exec failed with %q; the model expects %s", i, short(string(in)), cur, ob.st.ExecErr, describeExp(ob.exp))
			}
			break
		}
		if ob.exp.GracefulEnd || ob.exp.Abnormal || !ob.exp.Cont || !ob.st.Cont {
			break
		}
		if !ob.pathAgree || !ob.movesAgree {
			o.Counts["skipped_upstream"]++
			break
		}
		// probes for the coverage rule
		if n := a.Node(last(r.m.Path)); n != nil {
			for _, in2 := range n.Code {
				if in2.Op == app.RELOAD {
					reloads++
				}
			}
		}
		if len(r.m.Levels) < levelsBefore {
			released++
		}
		o.States = append(o.States, h64(strings.Join(r.m.Path, "/"), r.m.Table()))
		// 1. call log
		if !ob.callsAgree {
			var mc []string
			for _, cl := range ob.exp.Calls {
				mc = append(mc, fmt.Sprintf("%s#%d", cl.Sym, cl.K))
			}
			var ac []string
			n := ob.st.Calls
			for _, cl := range r.s.CallLog[len(r.s.CallLog)-n:] {
				ac = append(ac, fmt.Sprintf("%s#%d", cl.Sym, cl.K))
			}
			class := "wrong-calls"
			if len(ac) > len(mc) {
				class = "extra-external-call"
			} else if len(ac) < len(mc) {
				class = "missing-external-call"
				skippedLoad++
			}
			return finishModel(o, c, r).Fail(class, i, nil, "request %d input %s at %s -> %v: external calls %v, expected %v (one call per LOAD of a symbol that is not visible, one per RELOAD)", i, short(string(in)), cur, r.m.Path, ac, mc)
		}
		// 2. symbol tables per level
		if at, mt := actualTable(r.s), r.m.Table(); at != mt {
			class := "wrong-symbol-table"
			return finishModel(o, c, r).Fail(class, i, nil, "request %d input %s at %s -> %v: symbol tables (level[sym=len:hash]) are %s, expected %s", i, short(string(in)), cur, r.m.Path, at, mt)
		}
		// 3. shown values and the negative probe
		if nd := a.Node(ob.exp.Node); nd != nil && nd.NegProbe != "" && ob.st.FlushErr == "" && ob.st.Out != "" && !ob.browseOOR {
			return finishModel(o, c, r).Fail("unmapped-symbol-shown", i, nil, "request %d: node %s never maps %s, yet its template (which references it) rendered: %s", i, ob.exp.Node, nd.NegProbe, short(ob.st.Out))
		}
		if ob.st.FlushErr == "" && ob.page.OK && ob.page.Node == ob.exp.Node {
			for sym, shown := range ob.page.Vals {
				if sym == "NEG" {
					continue
				}
				mv := findSym(r, sym)
				mapped := false
				for _, m := range r.m.Mapped {
					if m == sym {
						mapped = true
					}
				}
				if !mapped {
					return finishModel(o, c, r).Fail("unmapped-symbol-shown", i, nil, "request %d: page of %s shows %s=%q although the node has not mapped it since the last move", i, ob.exp.Node, sym, shown)
				}
				if mv == nil || mv.Val != shown {
					want := "<not loaded>"
					if mv != nil {
						want = mv.Val
					}
					return finishModel(o, c, r).Fail("wrong-value-shown", i, nil, "request %d: page of %s shows %s=%s, the loaded value is %s", i, ob.exp.Node, sym, short(shown), short(want))
				}
				o.Probes["shown_value_checked"]++
			}
		}
	}
	// how often a LOAD was skipped because the symbol was visible: count from the model's call log vs LOADs executed is not tracked; approximate by probes
	o.Nontrivial = released > 0 && reloads > 0
	return finishModel(o, c, r)
}

func findSym(r *modelRun, sym string) *struct{ Val string } {
	for _, m := range r.m.Levels {
		if v, ok := m[sym]; ok {
			return &struct{ Val string }{v.Val}
		}
	}
	return nil
}

// c05RejectedShown returns an external result that exceeded the declared size of its symbol and
// nevertheless appears in out ("" if none). Results carry symbol name and call index, so one
// result cannot be part of another.
func c05RejectedShown(a *app.App, r *modelRun, out string) string {
	if out == "" {
		return ""
	}
	for _, cl := range r.s.CallLog {
		x := a.ExtSym(cl.Sym)
		if x == nil || x.Size == 0 || len(cl.Out) <= int(x.Size) || len(cl.Out) < 8 || cl.Err {
			continue
		}
		if strings.Contains(out, cl.Out) {
			return cl.Out
		}
	}
	return ""
}

// c05RejectedKept reports an over-limit result that the session's cache object still holds as its
// "last value" (the value a graceful session end appends to the final page, saved with the session).
func c05RejectedKept(a *app.App, r *modelRun) string {
	if r.s.Ca == nil || r.s.Ca.LastValue == "" {
		return ""
	}
	for _, cl := range r.s.CallLog {
		x := a.ExtSym(cl.Sym)
		// results shorter than 8 bytes are cut-off tags ("sa"): two different calls can return the same one,
		// so only a full tag (symbol, call index, input digest) identifies the refused result
		if x == nil || x.Size == 0 || len(cl.Out) <= int(x.Size) || len(cl.Out) < 8 || cl.Err {
			continue
		}
		if r.s.Ca.LastValue == cl.Out {
			return cl.Out
		}
	}
	return ""
}

// c05Aftermath keeps the real session going after a refused over-limit result, without the model.
func c05Aftermath(t *tape.Tape, a *app.App, r *modelRun, persisted bool, o *core.Outcome) *core.Violation {
	n := t.Range(0, 8)
	for j := 0; j < n; j++ {
		cur := ""
		if p, _ := r.s.Position(); len(p) > 0 {
			cur = p[len(p)-1]
		}
		in := genInput(t, a, cur, 1)
		st := r.s.Request(in, persisted)
		o.Counts["aftermath_requests"]++
		if st.Panic != "" {
			o.Probes["foreign_panic"]++
			return nil
		}
		if v := c05RejectedShown(a, r, st.Out); v != "" {
			return &core.Violation{Class: "over-limit-shown", Step: j, Msg: fmt.Sprintf("aftermath request %d input %s (after a refused over-limit result): the output contains %s, an external result that was larger than the declared size of its symbol: %s", j, short(string(in)), short(v), short(st.Out))}
		}
		if r.s.Ca != nil {
			for l, m := range r.s.Ca.Cache {
				for k, v := range m {
					if lim, ok := r.s.Ca.Sizes[k]; ok && lim > 0 && len(v) > int(lim) {
						return &core.Violation{Class: "over-limit-stored", Step: j, Msg: fmt.Sprintf("aftermath request %d: level %d holds %s with %d bytes under a declared limit of %d", j, l, k, len(v), lim)}
					}
				}
			}
		}
		if !st.Cont {
			o.Probes["aftermath_session_end"]++
			if !persisted {
				return nil
			}
		}
	}
	return nil
}
