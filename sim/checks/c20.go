package checks

import (
	"context"
	"strings"

	"git.defalsify.org/vise.git/persist"
	"git.defalsify.org/vise.git/state"

	"visim/app"
	"visim/core"
	"visim/pgfake"
	"visim/world"
)

func init() {
	core.Register(&core.Check{
		ID:    "C20",
		Level: "exploration",
		Rule: "one run = one generated application with graceful end nodes (code ends right after HALT), abnormal end nodes (code ends without HALT) and external functions that set TERMINATE, at depths 0..6, client flags set before the end + a history that keeps sending requests after the end, in persisted operation (fresh engine per request) on every backend; " +
			"graceful: the ending request delivers output and reports stop, the stored session then has an empty symbol cache and unchanged client flags, and the next request runs the entry node from its first instruction; abnormal/TERMINATE: the request reports stop and every later request reports stop, writes nothing and runs nothing until the harness clears the flag in the stored session; " +
			"non-trivial = at least one request served after a session end; distinct = distinct sequences of (end kind, depth, requests after the end)",
		Runs:       map[string]int{"quick": 100000, "thorough": 3000000},
		MaxSeconds: map[string]int{"quick": 40, "thorough": 900},
		Run:        runC20,
		Assumptions: []string{
			"requests on which the position differs from the model's are left to C03/C04 (skipped_upstream)",
			"nothing is asserted after the harness has cleared TERMINATE in the stored session",
			"a final page that fails to render (size) still ends the session; only the stop result is checked then",
		},
		Real:       append(append([]string{}, realAll...), "db/fs (compiled against the simulated os)", "db/postgres"),
		Stub:       append(append([]string{}, stubAll...), "reference model refvm (oracle)", "OS filesystem (simfs)", "Postgres server (pgfake)"),
		HangIsViolation: true, // the property promises that requests are served
		FaultKinds: []string{"store_read_error", "template_lookup_error", "client_write_error", "restart", "ext_terminate", "ext_error", "ext_flags", "client_garbage"},
	})
}

func c20Profile(t interface{ Chance(int, int) bool }, flagCount uint32) app.Profile {
	return app.Profile{
		MaxNodes: 6, MaxExt: 3, FlagCount: flagCount,
		Menus: true, Sinks: false,
		ExtFlags: true, ExtTerminate: true, Catch: true, Croak: t.Chance(1, 3),
		ExtErrPct: 3, EmptyPct: 3,
		SingleRoute: t.Chance(1, 2), RelTargets: true, EndNodes: true,
		CatchShape: -1, EndWeight: 2, InputWeight: 4, EndAfterInput: true,
	}
}

func runC20(c *core.Ctx) *core.Outcome {
	t := c.T
	o := core.NewOutcome()
	cfg := genCfg(t)
	cfg.Backend = t.Weighted(3, 2, 1, 2)
	cfg.FinishAlways = true
	cfg.SetSession = t.Chance(1, 2)
	cfg.CacheSize = 0
	cfg.First = t.Chance(1, 3)
	cfg.Debug = t.Chance(1, 4) // an attached debugger looks, it does not touch
	twoWorkers := false
	if t.Chance(1, 4) {
		// gateway policy: the session's persister is kept between requests (an engine per request all the same)
		cfg.KeepPersister = true
		cfg.SessionViaStore = t.Chance(1, 2)
		twoWorkers = t.Chance(1, 2) // two workers, each with a kept persister of its own, serve the session in drawn order
		o.Probes["run_with_kept_persister"]++
	}
	cfg.ResetOnEmpty = t.Chance(1, 4) // only exercised while the session is blocked: the model does not know the option
	if cfg.OutputSize > 0 && cfg.OutputSize < 60 {
		cfg.OutputSize = 0
	}
	var a *app.App
	var scripted [][]byte
	if t.Chance(1, 150) {
		// a session that ends gracefully deep down - at, or one short of, the deepest level there is
		a = deepEndApp(t)
		down := []int{126, 125, 126, 60}[t.Int(4)]
		for k := 0; k < down; k++ {
			scripted = append(scripted, []byte("1"))
		}
		scripted = append(scripted, []byte("7"), []byte("0"), []byte{}, []byte("1"))
		cfg.ResetOnEmpty = false
		o.Probes["deep_end_run"]++
	} else {
		a = app.Generate(t, c20Profile(t, cfg.FlagCount))
	}
	if err := a.Validate(); err != nil {
		panic("generator produced ill-formed app: " + err.Error())
	}
	r := newModelRun(a, cfg, true)
	defer r.w.Close()
	nreq := t.Range(3, 16)
	if len(scripted) > 0 {
		nreq = len(scripted) + 1 + t.Int(3)
	}
	afterEnd := 0
	blockSnap := ""
	blockedSeen := 0
	endKinds := ""
	for i := 0; i < nreq; i++ {
		t.Begin("request")
		var in []byte
		cur := r.curNode()
		if i > 0 {
			in = genInput(t, a, cur, 1)
		}
		if i > 0 && i-1 < len(scripted) {
			in = scripted[i-1]
		}
		clear := t.Chance(1, 6)
		tplFault := t.Chance(1, 8)
		wrFault := t.Chance(1, 8)
		emptyIn := t.Chance(1, 3)
		loadFault := !cfg.KeepPersister && t.Chance(1, 10)
		faultOff, faultInDriver := t.Int(8), t.Chance(1, 2)
		if cfg.KeepPersister && twoWorkers {
			r.s.Worker = t.Int(2)
		}
		t.End()
		wasEnded, wasBlocked := r.m.Ended, r.m.Blocked
		if cfg.ResetOnEmpty && i > 0 {
			if wasBlocked && emptyIn {
				in = []byte{} // an empty input must not be a way out of a blocked session
				o.Probes["empty_input_on_blocked_session_with_reset_on_empty"]++
			} else if len(in) == 0 {
				in = []byte("0")
			}
		}
		flagsBefore := r.m.UserFlags()
		if wasBlocked && blockedSeen >= 2 && clear {
			// client code clears TERMINATE in the stored session; nothing is asserted afterwards
			clearTerminate(r)
			o.Probes["terminate_cleared_by_harness"]++
			// ... nothing but this: "until the flag is cleared" - the next request is served again
			st := r.s.Request(in, true)
			o.Counts["requests"]++
			if st.Panic == "" && !(st.Cont || st.Out != "" || len(st.Moves) > 0 || st.Calls > 0 || st.Funcs > 0 || st.ExecErr != "") {
				return finishModel(o, c, r).Fail("still-blocked-after-flag-cleared", i, nil, "request %d input %s arrived after client code had cleared TERMINATE in the stored session (through a store handle and persister of its own): cont=%v, no output, no code fetch, no external call - the session is still blocked", i, short(string(in)), st.Cont)
			}
			break
		}
		if loadFault {
			// the store fails the read of the session record (a connection reset, an EIO): whatever this request
			// answers, the session is not lost over it - the model is not advanced and the requests that follow
			// are judged as if this one had never been sent (a blocked session is still blocked)
			before := r.s.LoadFailed
			driverFault := cfg.Backend == world.BackPg && r.w.Pg != nil && faultInDriver
			armed := 0
			if driverFault {
				// on the Postgres store the fault is one failing driver call of this request instead (begin, statement,
				// row fetch, scan, commit - of the load or of the save): the driver's errors have to come through the
				// backend as errors, and as errors that do not read "no such session"
				armed = r.w.Pg.Calls() + 1 + faultOff
				r.w.Pg.Faults[armed] = pgfake.FaultErr
			} else {
				r.s.FailLoadThisRequest = true
			}
			st := r.s.Request(in, true)
			o.Counts["requests"]++
			if driverFault {
				if r.w.Pg.Calls() >= armed {
					o.Faults["pg_fail"]++
				}
				delete(r.w.Pg.Faults, armed)
				if st.Panic == "" && !(st.ExecErr != "" && len(st.Moves) == 0 && st.Calls == 0) {
					// the failing call was not one the load needed (it came after it, or the backend could do
					// without it): the request was served, and whether its save went through is not known here
					o.Probes["driver_fault_did_not_stop_the_request"]++
					break
				}
			}
			if r.s.LoadFailed > before {
				o.Faults["store_read_error"]++
				if wasBlocked {
					o.Probes["store_read_error_on_blocked_session"]++
				}
			}
			if st.Panic != "" {
				o.Probes["foreign_panic"]++
				break
			}
			continue
		}
		if wrFault && !wasBlocked && !tplFault {
			// ... or it is rendered and cannot be written: the client has hung up
			r.s.FailWriteThisRequest = true
		}
		if tplFault && !wasBlocked {
			// the page of this request cannot be rendered (template store down): whatever the request
			// does to the session - continue, end, block - holds all the same
			r.s.FailTemplateThisRequest = true
		}
		ob := r.request(in, true)
		o.Counts["requests"]++
		if i > 0 {
			o.Faults["restart"]++
		}
		if ob.panic {
			o.Probes["foreign_panic"]++
			break
		}
		if ob.refused {
			o.Faults["client_garbage"]++
			continue
		}
		if ob.exp.Skip {
			o.Counts["out_of_envelope"]++
			break
		}
		for _, cl := range ob.exp.Calls {
			if cl.Err {
				o.Faults["ext_error"]++
			}
		}
		if wasEnded || wasBlocked {
			afterEnd++
		}
		o.States = append(o.States, h64(endKinds, len(r.m.Path), afterEnd, ob.exp.GracefulEnd, ob.exp.Abnormal, ob.exp.BlockedReq))
		// blocked requests
		if ob.exp.BlockedReq {
			blockedSeen++
			o.Probes["blocked_request"]++
			if ob.st.Cont || ob.st.Out != "" || len(ob.st.Moves) > 0 || ob.st.Calls > 0 || ob.st.Funcs > 0 {
				return finishModel(o, c, r).Fail("blocked-session-ran", i, nil, "request %d input %s arrived after an abnormal end/TERMINATE: cont=%v output=%s code fetches=%v external lookups/calls=%d (exec error %q)", i, short(string(in)), ob.st.Cont, short(ob.st.Out), ob.st.Moves, ob.st.Calls+ob.st.Funcs, ob.st.ExecErr)
			}
			snap := blockKey(r)
			if blockSnap != "" && snap != blockSnap {
				return finishModel(o, c, r).Fail("blocked-session-changed", i, nil, "request %d arrived while the session is blocked and changed it: %s -> %s", i, blockSnap, snap)
			}
			blockSnap = snap
			continue
		}
		if ob.exp.ExecErr || ob.st.ExecErr != "" {
			break
		}
		if !ob.movesAgree && !ob.browseOOR {
			if wasEnded {
				return finishModel(o, c, r).Fail("restart-after-end-wrong", i, nil, "request %d input %s is the first after a graceful end: code fetches %v, expected %v (the entry node from its first instruction)", i, short(string(in)), ob.st.Moves, ob.exp.Moves)
			}
			if ob.exp.Abnormal || ob.exp.GracefulEnd || ob.exp.NoMatch {
				return finishModel(o, c, r).Fail("end-routing-wrong", i, nil, "request %d input %s at %s: code fetches %v, expected %v (model: %s)", i, short(string(in)), cur, ob.st.Moves, ob.exp.Moves, describeExp(ob.exp))
			}
			o.Counts["skipped_upstream"]++
			break
		}
		if wasEnded {
			o.Probes["restart_after_graceful_end"]++
			if !ob.callsAgree {
				return finishModel(o, c, r).Fail("restart-after-end-wrong", i, nil, "request %d is the first after a graceful end: the entry node's LOADs must run afresh (model expects %d external calls, saw %d)", i, len(ob.exp.Calls), ob.st.Calls)
			}
			if ob.st.FlushErr == "" && ob.page.OK && ob.page.Node != a.Root && ob.page.Node != ob.exp.Node {
				return finishModel(o, c, r).Fail("restart-after-end-wrong", i, nil, "request %d is the first after a graceful end but the page is of node %q", i, ob.page.Node)
			}
		}
		if ob.exp.GracefulEnd {
			endKinds += "G"
			o.Probes["graceful_end"]++
			if ob.st.Cont {
				return finishModel(o, c, r).Fail("graceful-end-not-stopping", i, nil, "request %d input %s: code ran out right after HALT at %v but the engine reports continue", i, short(string(in)), r.m.Path)
			}
			if ob.st.FlushErr != "" {
				// the final page could not be rendered (nothing says what the client then receives), but the
				// session has ended all the same: the next request must start it again like after any other end
				o.Probes["graceful_end_render_refused"]++
				continue
			}
			if ob.st.FlushErr == "" && ob.st.Out == "" {
				return finishModel(o, c, r).Fail("graceful-end-no-output", i, nil, "request %d input %s: the session ended gracefully but no final output was delivered", i, short(string(in)))
			}
			// the final output ends with the exit value: what the session loaded last
			if ob.st.FlushErr == "" && r.m.LastLoad != "" && !strings.HasSuffix(ob.st.Out, r.m.LastLoad) {
				return finishModel(o, c, r).Fail("graceful-end-exit-value-lost", i, nil, "request %d input %s: the session ended gracefully; the value it loaded last is %s, the final output is %s", i, short(string(in)), short(r.m.LastLoad), short(ob.st.Out))
			}
			if r.m.LastLoad != "" {
				o.Probes["graceful_end_exit_value_compared"]++
			}
			// the stored session: empty symbol cache, client flags kept
			if r.s.Ca != nil {
				n := 0
				for _, m := range r.s.Ca.Cache {
					n += len(m)
				}
				if n > 0 || r.s.Ca.CacheUseSize != 0 {
					return finishModel(o, c, r).Fail("graceful-end-cache-kept", i, nil, "after the graceful end the stored symbol cache is not empty: %s (used %d)", actualTable(r.s), r.s.Ca.CacheUseSize)
				}
			}
			if af, mf := actualUserFlags(r.s, cfg.FlagCount), r.m.UserFlags(); af != mf {
				return finishModel(o, c, r).Fail("graceful-end-flags-lost", i, nil, "after the graceful end the client flags are {%s}, expected {%s} (before the request {%s})", af, mf, flagsBefore)
			}
			continue
		}
		if ob.exp.Abnormal {
			if strings.Contains(endKinds, "A") == false {
				endKinds += "A"
			}
			o.Probes["abnormal_end_or_terminate"]++
			o.Faults["ext_terminate"]++
			if ob.st.Cont {
				return finishModel(o, c, r).Fail("abnormal-end-not-stopping", i, nil, "request %d input %s: code ran out without HALT or TERMINATE was set at %v but the engine reports continue (page %s)", i, short(string(in)), r.m.Path, short(ob.st.Out))
			}
			blockSnap = blockKey(r)
			continue
		}
		if !ob.st.Cont {
			return finishModel(o, c, r).Fail("unexpected-stop", i, nil, "request %d input %s at %s: the engine reports stop; the model expects the session to continue at %v (model: %s)", i, short(string(in)), cur, r.m.Path, describeExp(ob.exp))
		}
		if r.m.UserFlags() != flagsBefore {
			o.Faults["ext_flags"]++
		}
	}
	o.Nontrivial = afterEnd > 0
	return finishModel(o, c, r)
}

// clearTerminate loads the stored session, clears TERMINATE and stores it again (client code).
func clearTerminate(r *modelRun) {
	world.Guard(func() {
		store, err := r.w.Peek(r.s)
		if err != nil {
			return
		}
		if r.w.Cfg.SetSession {
			store.SetSession(r.s.ID)
		}
		pe := persist.NewPersister(store)
		if pe.Load(r.s.ID) != nil {
			return
		}
		pe.GetState().ResetFlag(state.FLAG_TERMINATE)
		pe.Save(r.s.ID)
		store.Close(context.Background())
	})
}

