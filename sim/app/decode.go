package app

import "fmt"

// DecErr describes where and why a byte string stops being a sequence of complete,
// valid instructions (format: doc/texinfo/instructions.texi, header comments of vm/vm.go).
type DecErr struct {
	Inst int    // index of the malformed instruction
	At   int    // byte offset where that instruction starts
	Why  string // truncated | opcode | zero-string | long-int
}

func (e *DecErr) Error() string {
	return fmt.Sprintf("malformed instruction %d at byte %d: %s", e.Inst, e.At, e.Why)
}

type decoder struct {
	b []byte
	p int
}

func (d *decoder) str() (string, string) {
	if d.p >= len(d.b) {
		return "", "truncated"
	}
	l := int(d.b[d.p])
	if l == 0 {
		return "", "zero-string"
	}
	if d.p+1+l > len(d.b) {
		return "", "truncated"
	}
	s := string(d.b[d.p+1 : d.p+1+l])
	d.p += 1 + l
	return s, ""
}

func (d *decoder) num() (uint32, string) {
	if d.p >= len(d.b) {
		return 0, "truncated"
	}
	l := int(d.b[d.p])
	if l > 4 {
		return 0, "long-int"
	}
	if d.p+1+l > len(d.b) {
		return 0, "truncated"
	}
	var n uint32
	for _, c := range d.b[d.p+1 : d.p+1+l] {
		n = n<<8 | uint32(c)
	}
	d.p += 1 + l
	return n, ""
}

func (d *decoder) mode() (bool, string) {
	if d.p >= len(d.b) {
		return false, "truncated"
	}
	m := d.b[d.p] > 0
	d.p++
	return m, ""
}

// Decode is the independent decoder. It returns the instructions decoded before the
// first malformed one, the byte offsets at which each decoded instruction starts, and the
// error (nil when the whole string is a sequence of complete valid instructions).
// NOOP (opcode 0) is decoded as an instruction without arguments.
func Decode(b []byte) ([]Inst, []int, *DecErr) {
	d := &decoder{b: b}
	var out []Inst
	var offs []int
	for d.p < len(b) {
		start := d.p
		fail := func(why string) ([]Inst, []int, *DecErr) {
			return out, offs, &DecErr{Inst: len(out), At: start, Why: why}
		}
		if d.p+2 > len(b) {
			return fail("truncated")
		}
		op := Op(uint16(b[d.p])<<8 | uint16(b[d.p+1]))
		d.p += 2
		if op > MPREV {
			return fail("opcode")
		}
		in := Inst{Op: op}
		var why string
		switch op {
		case LOAD:
			if in.A, why = d.str(); why != "" {
				return fail(why)
			}
			if in.N, why = d.num(); why != "" {
				return fail(why)
			}
		case RELOAD, MAP, MOVE:
			if in.A, why = d.str(); why != "" {
				return fail(why)
			}
		case INCMP, MOUT, MNEXT, MPREV:
			if in.A, why = d.str(); why != "" {
				return fail(why)
			}
			if in.B, why = d.str(); why != "" {
				return fail(why)
			}
		case CATCH:
			if in.A, why = d.str(); why != "" {
				return fail(why)
			}
			if in.N, why = d.num(); why != "" {
				return fail(why)
			}
			if in.M, why = d.mode(); why != "" {
				return fail(why)
			}
		case CROAK:
			if in.N, why = d.num(); why != "" {
				return fail(why)
			}
			if in.M, why = d.mode(); why != "" {
				return fail(why)
			}
		}
		out = append(out, in)
		offs = append(offs, start)
	}
	return out, offs, nil
}
