package world

import (
	"context"

	"git.defalsify.org/vise.git/db"
	"git.defalsify.org/vise.git/lang"

	"visim/simfs"
)

// MarkDb wraps a store handle and brackets every Put with markers in the simulated
// disk's step log, so that crash points can be attributed to a save without knowing how
// the backend writes.
type MarkDb struct {
	db.Db
	Disk *simfs.FS
	Puts int
}

func (m *MarkDb) Put(ctx context.Context, key []byte, val []byte) error {
	m.Puts++
	m.Disk.Mark("put-begin", string(key))
	err := m.Db.Put(ctx, key, val)
	m.Disk.Mark("put-end", string(key))
	return err
}

func (m *MarkDb) SetLanguage(l *lang.Language) { m.Db.SetLanguage(l) }
