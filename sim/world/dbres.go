package world

import (
	"context"
	"fmt"

	"git.defalsify.org/vise.git/db"
	memdb "git.defalsify.org/vise.git/db/mem"
	"git.defalsify.org/vise.git/resource"
)

// lookDb records every Get made by the library's DbResource with the language on the context.
type lookDb struct {
	db.Db
	s *Sess
}

func (l *lookDb) Get(ctx context.Context, key []byte) ([]byte, error) {
	lg := ctxLang(ctx)
	v, err := l.Db.Get(ctx, key)
	kind := fmt.Sprintf("db:%d", l.Db.Prefix())
	if l.s.KeepLookups {
		l.s.Lookups = append(l.s.Lookups, Lookup{kind, string(key), lg})
	}
	res := ""
	if err != nil {
		res = "ERR"
	}
	l.s.W.Rec.Add(l.s.Idx, "DbGet", fmt.Sprintf("%s/%s/%s", kind, key, lg), res)
	if l.s.cur != nil && l.Db.Prefix() == db.DATATYPE_BIN && err == nil {
		l.s.cur.Moves = append(l.s.cur.Moves, string(key))
	}
	if l.s.cur != nil && l.Db.Prefix() == db.DATATYPE_TEMPLATE && err == nil {
		l.s.cur.Tpls = append(l.s.cur.Tpls, string(key))
	}
	return v, err
}

// UseDbResource makes every engine read the application through the library's own
// resource.DbResource over a memory store filled from the application tables (templates
// and menu labels under their language keys). External symbols stay scripted functions.
func (w *World) UseDbResource() error {
	ctx := context.Background()
	store := memdb.NewMemDb()
	if err := store.Connect(ctx, ""); err != nil {
		return err
	}
	for _, t := range []uint8{db.DATATYPE_BIN, db.DATATYPE_TEMPLATE, db.DATATYPE_MENU, db.DATATYPE_STATICLOAD} {
		store.SetLock(t, false)
	}
	put := func(typ uint8, key string, lg string, val []byte) error {
		store.SetPrefix(typ)
		c := ctx
		store.SetLanguage(nil)
		if lg != "" {
			l, err := langFor(lg)
			if err != nil {
				return err
			}
			store.SetLanguage(&l)
		}
		return store.Put(c, []byte(key), val)
	}
	for _, n := range w.App.Nodes {
		b, _ := w.App.Bytecode(n.Name)
		if err := put(db.DATATYPE_BIN, n.Name, "", b); err != nil {
			return err
		}
		for lg, tpl := range n.Tpl {
			if err := put(db.DATATYPE_TEMPLATE, n.Name, lg, []byte(tpl)); err != nil {
				return err
			}
		}
	}
	for label, m := range w.App.Labels {
		for lg, txt := range m {
			if err := put(db.DATATYPE_MENU, label+"_menu", lg, []byte(txt)); err != nil {
				return err
			}
		}
	}
	haveStatic := false
	for _, e := range w.App.Ext {
		for lg, txt := range e.Static {
			haveStatic = true
			if err := put(db.DATATYPE_STATICLOAD, e.Name, lg, []byte(txt)); err != nil {
				return err
			}
		}
	}
	store.SetLanguage(nil)
	store.SetLock(0, true)
	w.ResFor = func(s *Sess) resource.Resource {
		rs := resource.NewDbResource(&lookDb{Db: store, s: s})
		if haveStatic {
			rs = rs.With(db.DATATYPE_STATICLOAD)
		}
		for _, e := range w.App.Ext {
			e := e
			if e.Static != nil {
				continue // served by the library from the store
			}
			rs.AddLocalFunc(e.Name, func(ctx context.Context, nodeSym string, input []byte) (resource.Result, error) {
				if s.cur != nil {
					s.cur.Funcs++
				}
				return s.callExt(ctx, e, nodeSym, input)
			})
		}
		return rs
	}
	return nil
}
