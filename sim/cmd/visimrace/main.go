// visimrace is the same simulator built with the race detector; it runs stripes of a
// check's runs (printing the run index first) or replays one tape.
package main

import (
	"flag"
	"fmt"
	"os"

	_ "visim/checks"
	"visim/core"
)

func main() {
	if len(os.Args) < 3 {
		fmt.Fprintln(os.Stderr, "usage: visim-race stripe <id> --tier t --seed s --start k --stride n --count m | replay <file>")
		os.Exit(2)
	}
	core.RaceBuild = true
	switch os.Args[1] {
	case "stripe":
		fs := flag.NewFlagSet("stripe", flag.ExitOnError)
		tier := fs.String("tier", "quick", "")
		seed := fs.Uint64("seed", 1, "")
		start := fs.Uint64("start", 0, "")
		stride := fs.Uint64("stride", 1, "")
		count := fs.Uint64("count", 1, "")
		fs.Parse(os.Args[3:])
		os.Exit(core.RunStripe(os.Args[2], *tier, *seed, *start, *stride, *count))
	case "replay":
		os.Exit(core.Replay(os.Args[2], false))
	}
	os.Exit(2)
}
