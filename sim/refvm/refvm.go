// Package refvm is the executable reference model of the vise VM and engine as documented
// (doc/texinfo/*.texi) and as the properties state it. It works on the IR, not on bytecode,
// and imports no vise package. It predicts the seam-visible events of a request: external
// calls, moves (code fetches), position, user flags, symbol tables, language, session end.
// It does not model rendering.
package refvm

import (
	"fmt"
	"strings"

	"visim/app"
)

const (
	FlagTerminate = 6
	FlagLang      = 7
)

// valid ISO-639 codes the model knows (2- and 3-letter forms) mapped to the 3-letter code.
var langCodes = map[string]string{
	"nor": "nor", "no": "nor", "swa": "swa", "sw": "swa", "fra": "fra", "fr": "fra", "fre": "fra",
	"deu": "deu", "de": "deu", "ger": "deu", "eng": "eng", "en": "eng",
}

// KnownLang reports whether the model knows if code is valid; ok=false means "cannot tell".
func KnownLang(code string) (canon string, valid bool, known bool) {
	if c, ok := langCodes[code]; ok {
		return c, true, true
	}
	switch code {
	case "xx", "klingon", "", "zz9":
		return "", false, true
	}
	return "", false, false
}

type Call struct {
	Sym   string
	K     int
	Input string
	Lang  string // language in force when the call was made
	Err   bool
}

type Cfg struct {
	FlagCount uint32
	CacheSize uint32
	Language  string
}

type Sym struct {
	Val  string
	Size uint32
}

type State struct {
	App    *app.App
	Cfg    Cfg
	Path   []string
	Idx    uint16
	Flags  map[uint32]bool // user flags (>= 8), TERMINATE, LANG are tracked
	Levels []map[string]*Sym
	Code   []app.Inst
	Lang   string
	Calls  map[string]int

	reading bool
	matched bool
	Mapped  []string

	ExtFailed bool // an external call has failed at some point (implementation keeps LOADFAIL)
	Ended     bool // graceful end happened: next request restarts at the entry node
	Blocked   bool // abnormal end or TERMINATE: every later request is blocked
	OOE       bool // out of envelope: the model abstains from this point on
	OOEWhy    string
	Started   bool
	LastLoad  string // last value stored by LOAD (exit value at a graceful end)
	Stats     map[string]int // reach probes: how often the model went through notable branches
}

func New(a *app.App, cfg Cfg) *State {
	s := &State{App: a, Cfg: cfg, Flags: map[uint32]bool{}, Levels: []map[string]*Sym{{}}, Calls: map[string]int{}, Stats: map[string]int{}}
	if c, ok, _ := KnownLang(cfg.Language); ok {
		s.Lang = c
	}
	return s
}

// Expect is what the model predicts for one request.
type Expect struct {
	Skip        bool     // the model abstained (out of envelope) for this request
	Calls       []Call   // external calls in order
	Moves       []string // nodes whose code is fetched, in order
	Cont        bool
	ExecErr     bool   // the request ends with an execution error
	ErrWhy      string // why (failing-move, over-limit, capacity, ...)
	Node        string // node rendered ("" when nothing is rendered)
	Prefix      string // "", "invalid-input", "ext-error"
	PrefixInput string
	GracefulEnd bool
	Abnormal    bool // abnormal end or TERMINATE set during this request
	BlockedReq  bool // request arrived while blocked
	LateralMove bool // the last successful move was > or <
	NoMatch     bool
	LangLookups []string // language in force at each template/menu lookup is State.Lang at render time
}

func (s *State) visible(sym string) *Sym {
	for _, m := range s.Levels {
		if v, ok := m[sym]; ok {
			return v
		}
	}
	return nil
}

func (s *State) use() uint32 {
	var n uint32
	for _, m := range s.Levels {
		for _, v := range m {
			n += uint32(len(v.Val))
		}
	}
	return n
}

func (s *State) top() string {
	if len(s.Path) == 0 {
		return ""
	}
	return s.Path[len(s.Path)-1]
}

func (s *State) ooe(why string) {
	if !s.OOE {
		s.OOE = true
		s.OOEWhy = why
	}
}

// callExt runs the scripted external function in the model.
func (s *State) callExt(e *Expect, sym string, input []byte) (content string, failed bool) {
	x := s.App.ExtSym(sym)
	if x == nil {
		s.ooe("unknown external symbol " + sym)
		return "", true
	}
	if x.Static != nil {
		// static-load symbol: no code runs; the entry of the language in force, else the default entry
		c, ok := x.StaticContent(s.Lang)
		if !ok {
			s.ooe("static symbol without default entry")
			return "", true
		}
		s.Stats["static_load"]++
		if _, tr := x.Static[s.Lang]; s.Lang != "" && !tr {
			s.Stats["static_load_fallback_to_default"]++
		}
		return c, false
	}
	k := s.Calls[sym]
	s.Calls[sym] = k + 1
	b := &x.Script[k%len(x.Script)]
	e.Calls = append(e.Calls, Call{Sym: sym, K: k, Input: string(input), Lang: s.Lang, Err: b.Err})
	if b.Err {
		s.ExtFailed = true
		return "", true
	}
	c := app.Content(sym, k, app.Digest(input), b)
	// flags: only client flags (>= 8), TERMINATE and LANG are writable
	for _, f := range b.Reset {
		if f > 5 && f < 8+s.Cfg.FlagCount {
			s.Flags[f] = false
		}
	}
	for _, f := range b.Set {
		if f > 5 && f < 8+s.Cfg.FlagCount {
			s.Flags[f] = true
		}
	}
	if s.Flags[FlagLang] {
		canon, valid, known := KnownLang(c)
		if !known {
			s.ooe("language code the model cannot judge: " + c)
		} else if valid {
			s.Lang = canon
		}
		s.Flags[FlagLang] = false // lifetime: next instruction
	}
	return c, false
}

// move applies a target. ok=false: the move fails.
func (s *State) move(target string) (node string, ok bool, lateral bool) {
	switch target {
	case "_":
		if len(s.Path) <= 1 {
			s.Stats["up_at_entry_node"]++
			return "", false, false
		}
		s.Path = s.Path[:len(s.Path)-1]
		s.Levels = s.Levels[:len(s.Levels)-1]
		s.Idx = 0
		return s.top(), true, false
	case "^":
		if len(s.Path) == 0 {
			return "", false, false
		}
		if len(s.Path) > 1 {
			s.Idx = 0
		}
		s.Path = s.Path[:1]
		s.Levels = s.Levels[:2]
		return s.top(), true, false
	case ".":
		if len(s.Path) == 0 {
			return "", false, false
		}
		return s.top(), true, false
	case ">":
		if len(s.Path) == 0 {
			return "", false, false
		}
		s.Idx++
		return s.top(), true, true
	case "<":
		if len(s.Path) == 0 || s.Idx == 0 {
			return "", false, false
		}
		s.Idx--
		return s.top(), true, true
	}
	if s.App.Node(target) == nil {
		return "", false, false
	}
	if len(s.Path) > 0 && s.top() == target {
		// a move to the node that is already current is refused (reachable from well-formed code through
		// the instructions a matched INCMP line leaves behind)
		s.Stats["move_to_current_node"]++
		return "", false, false
	}
	s.Path = append(s.Path, target)
	s.Levels = append(s.Levels, map[string]*Sym{})
	s.Idx = 0
	return target, true, false
}

func (s *State) nodeCode(n string) []app.Inst {
	nd := s.App.Node(n)
	if nd == nil {
		return nil
	}
	return append([]app.Inst(nil), nd.Code...)
}

func (s *State) toCatch(e *Expect, prefix string, input []byte) {
	s.Code = nil
	e.Prefix = prefix
	e.PrefixInput = string(input)
	if s.top() == "_catch" {
		s.ooe("error while on the catch node")
		return
	}
	node, ok, _ := s.move("_catch")
	if !ok {
		s.ooe("no catch node")
		return
	}
	s.Mapped = nil
	e.Moves = append(e.Moves, node)
	s.Code = s.nodeCode(node)
}

// Request advances the model by one accepted request and returns the prediction.
// The caller must not call it for requests the engine refused.
func (s *State) Request(input []byte) *Expect {
	e := &Expect{Cont: true}
	if s.OOE {
		e.Skip = true
		return e
	}
	if s.Blocked {
		e.BlockedReq = true
		e.Cont = false
		return e
	}
	if s.Ended || !s.Started {
		// (re)start at the entry node with an empty symbol cache, client flags kept
		s.Started = true
		s.Ended = false
		s.Path = nil
		s.Idx = 0
		s.Levels = []map[string]*Sym{{}}
		s.Code = []app.Inst{{Op: app.MOVE, A: s.App.Root}}
		s.Mapped = nil
		s.reading = false
		s.matched = false
		s.LastLoad = ""
	} else {
		// execution resumes after a HALT
		s.matched = false
		s.Mapped = nil
	}
	fuel := 400
	lastWasHalt := false
	for {
		fuel--
		if fuel < 0 {
			s.ooe("model fuel exhausted")
			e.Skip = true
			return e
		}
		if s.OOE {
			e.Skip = true
			return e
		}
		if s.Flags[FlagTerminate] {
			s.Code = nil
			s.Blocked = true
			e.Abnormal = true
			e.Cont = false
			e.Node = s.top()
			return e
		}
		if len(s.Code) == 0 {
			if lastWasHalt {
				// code exhausted right after a HALT: graceful end
				e.GracefulEnd = true
				e.Cont = false
				e.Node = s.top()
				s.Ended = true
				return e
			}
			if s.reading {
				// input was not matched by any INCMP: invalid input -> catch node
				s.reading = false
				e.NoMatch = true
				s.toCatch(e, "invalid-input", input)
				continue
			}
			// ran out of code without HALT: abnormal end
			s.Flags[FlagTerminate] = true
			continue
		}
		in := s.Code[0]
		s.Code = s.Code[1:]
		lastWasHalt = false
		switch in.Op {
		case app.HALT:
			lastWasHalt = true
			if len(s.Code) == 0 {
				continue
			}
			e.Node = s.top()
			return e
		case app.LOAD:
			if s.visible(in.A) != nil {
				if _, here := s.Levels[len(s.Levels)-1][in.A]; here {
					s.Stats["load_skipped_visible_same_level"]++
				} else {
					s.Stats["load_skipped_visible_from_upper_level"]++
				}
				continue
			}
			c, failed := s.callExt(e, in.A, input)
			if failed {
				if s.OOE {
					continue
				}
				s.toCatch(e, "ext-error", input)
				continue
			}
			if in.N > 0 && uint32(len(c)) > in.N {
				e.ExecErr, e.ErrWhy, e.Cont = true, "over-limit", false
				s.ooe("LOAD result over its limit")
				return e
			}
			if s.Cfg.CacheSize > 0 && s.use()+uint32(len(c)) > s.Cfg.CacheSize {
				e.ExecErr, e.ErrWhy, e.Cont = true, "capacity", false
				s.ooe("cache capacity exceeded")
				return e
			}
			s.Levels[len(s.Levels)-1][in.A] = &Sym{Val: c, Size: in.N}
			s.LastLoad = c
		case app.RELOAD:
			v := s.visible(in.A)
			c, failed := s.callExt(e, in.A, input)
			if failed {
				if s.OOE {
					continue
				}
				s.toCatch(e, "ext-error", input)
				continue
			}
			if v == nil {
				e.ExecErr, e.ErrWhy, e.Cont = true, "reload-invisible", false
				s.ooe("RELOAD of a symbol that is not visible")
				return e
			}
			if c == "" {
				s.Stats["reload_to_empty"]++
			}
			if v.Size > 0 && uint32(len(c)) > v.Size {
				// over the limit: never stored; the old value stays
				s.Stats["reload_over_limit_not_stored"]++
			} else if s.Cfg.CacheSize > 0 && s.use()-uint32(len(v.Val))+uint32(len(c)) > s.Cfg.CacheSize {
				s.ooe("cache capacity exceeded on RELOAD")
				e.Skip = true
				return e
			} else {
				v.Val = c
			}
			s.mapSym(in.A)
		case app.MAP:
			if s.visible(in.A) == nil {
				e.ExecErr, e.ErrWhy, e.Cont = true, "map-invisible", false
				s.ooe("MAP of a symbol that is not visible")
				return e
			}
			s.mapSym(in.A)
		case app.MOVE:
			node, ok, lat := s.move(in.A)
			if !ok {
				e.ExecErr, e.ErrWhy, e.Cont = true, "failing-move:"+in.A, false
				s.ooe("failing move " + in.A)
				return e
			}
			e.LateralMove = lat
			s.Mapped = nil
			e.Moves = append(e.Moves, node)
			s.Code = append(s.Code, s.nodeCode(node)...)
		case app.INCMP:
			if s.matched {
				if in.B == "*" || in.B == string(input) {
					s.Stats["incmp_candidate_ignored_after_match"]++
				}
				continue
			}
			s.reading = true
			if in.B != "*" && in.B != string(input) {
				continue
			}
			if in.B == "*" {
				s.Stats["wildcard_match"]++
			}
			depthBefore := len(s.Path)
			node, ok, lat := s.move(in.A)
			if ok && in.A == "^" && depthBefore >= 3 {
				s.Stats["rewind_from_depth_ge3"]++
			}
			if !ok {
				if in.A == "<" {
					// a 'previous' request on the first page counts as no match for the whole
					// request: no later INCMP is considered, the input ends on the catch node
					s.matched = true
					s.reading = true
					s.Stats["previous_on_first_page"]++
					continue
				}
				e.ExecErr, e.ErrWhy, e.Cont = true, "failing-move:"+in.A, false
				s.ooe("failing move " + in.A)
				return e
			}
			s.matched = true
			s.reading = false
			e.LateralMove = lat
			s.Mapped = nil
			e.Moves = append(e.Moves, node)
			s.Code = append(s.Code, s.nodeCode(node)...)
		case app.CATCH:
			if in.N >= 8+s.Cfg.FlagCount {
				s.ooe("flag out of range")
				continue
			}
			if s.Flags[in.N] != in.M {
				s.Stats["catch_not_taken"]++
				continue
			}
			s.Stats["catch_taken"]++
			if len(s.Mapped) > 0 {
				s.Stats["catch_taken_with_mappings_pending"]++
			}
			node, ok, lat := s.move(in.A)
			if !ok {
				e.ExecErr, e.ErrWhy, e.Cont = true, "failing-move:"+in.A, false
				s.ooe("failing move " + in.A)
				return e
			}
			e.LateralMove = lat
			s.Mapped = nil
			e.Moves = append(e.Moves, node)
			s.Code = s.nodeCode(node)
		case app.CROAK:
			if in.N >= 8+s.Cfg.FlagCount {
				s.ooe("flag out of range")
				continue
			}
			if s.Flags[in.N] != in.M {
				continue
			}
			// purge pending code and loaded symbols
			s.Code = nil
			for i := range s.Levels {
				if i > 0 {
					s.Levels[i] = map[string]*Sym{}
				}
			}
			s.Mapped = nil
			if s.reading {
				s.reading = false
				s.Stats["croak_while_reading"]++
				s.toCatch(e, "croak", input)
				continue
			}
			s.Stats["croak_terminates"]++
			s.Flags[FlagTerminate] = true
		case app.MOUT, app.MNEXT, app.MPREV, app.MSINK:
			// rendering only
		}
	}
}

func (s *State) mapSym(sym string) {
	for _, m := range s.Mapped {
		if m == sym {
			return
		}
	}
	s.Mapped = append(s.Mapped, sym)
}

// UserFlags returns the client-defined flags as a sorted string of set indices.
func (s *State) UserFlags() string {
	var l []string
	for f := uint32(8); f < 8+s.Cfg.FlagCount; f++ {
		if s.Flags[f] {
			l = append(l, fmt.Sprint(f))
		}
	}
	return strings.Join(l, ",")
}

// Table renders the symbol tables per level (level 0 = base) as a comparable string.
func (s *State) Table() string {
	var parts []string
	for i, m := range s.Levels {
		var ks []string
		for k, v := range m {
			ks = append(ks, fmt.Sprintf("%s=%d:%x", k, len(v.Val), hash(v.Val)))
		}
		sortStr(ks)
		parts = append(parts, fmt.Sprintf("%d%v", i, ks))
	}
	return strings.Join(parts, " ")
}

func hash(s string) uint32 {
	var h uint32 = 2166136261
	for i := 0; i < len(s); i++ {
		h = (h ^ uint32(s[i])) * 16777619
	}
	return h
}

// Hash is exported for the checks' observers (same function on observed values).
func Hash(s string) uint32 { return hash(s) }

func sortStr(l []string) {
	for i := 1; i < len(l); i++ {
		for j := i; j > 0 && l[j] < l[j-1]; j-- {
			l[j], l[j-1] = l[j-1], l[j]
		}
	}
}

// SyncToCatch lets the observer tell the model that a render beyond the last page moved
// the session to the catch node (the model does not know page counts).
func (s *State) SyncToCatch() {
	if s.top() != "_catch" {
		s.Path = append(s.Path, "_catch")
		s.Levels = append(s.Levels, map[string]*Sym{})
		s.Idx = 0
		s.Mapped = nil
		s.Code = s.nodeCode("_catch")
		// the catch node's HALT has been executed
		for len(s.Code) > 0 {
			in := s.Code[0]
			s.Code = s.Code[1:]
			if in.Op == app.HALT {
				break
			}
		}
	}
}
