package checks

import (
	"bytes"
	"context"
	"fmt"
	"git.defalsify.org/vise.git/resource"
	"os"
	"os/exec"
	"path/filepath"
	"runtime"
	"sort"
	"strconv"
	"strings"
	"sync"
	"sync/atomic"
	"time"

	"visim/app"
	"visim/core"
	"visim/refvm"
	"visim/sched"
	"visim/simfs"
	"visim/world"
)

func init() {
	core.Register(&core.Check{
		ID:    "C19",
		Level: "exploration",
		Rule: "one run = one generated application shared (bytecode, templates, labels - bytecode slices carry spare capacity filled with a canary) by 2..16 sessions, each with its own engine, state, cache, persister and store handle (memory, or one shared directory on the simulated disk), long-lived and persisted engines mixed; the sessions first run one after another (solo), then as goroutines under the seeded baton scheduler, which parks every task at every seam event and draws the next one to run from the tape (uniform, or biased to switch right after a code fetch); " +
			"oracles: per-session transcripts equal the solo transcripts, shared tables incl. the canary area unchanged, and - in the -race build, a third of the quick worlds and all thorough worlds - no conflicting access between two session tasks (the hand-off is hidden from the race detector); " +
			"non-trivial = at least 2 sessions each served >= 2 requests and the schedule switched tasks inside a request; distinct = distinct schedules (task id sequences)",
		Runs:       map[string]int{"quick": 9000, "thorough": 300000},
		MaxSeconds: map[string]int{"quick": 40, "thorough": 900},
		Run:        runC19,
		Assumptions: []string{
			"sessions share nothing but the immutable application tables; the harness gives every session its own recorder so that the race detector only sees library state",
			"ThreadSanitizer keeps a bounded access history; worlds are kept short",
			"the simulated disk is internally synchronised (like a kernel); races through it are not visible to the detector",
		},
		Real:        append(append([]string{}, realAll...), "db/fs (compiled against the simulated os)", "resource.PoResource over generated .po files on the real file system (one run in 8, shared by all sessions)"),
		Stub:        append(append([]string{}, stubAll...), "OS filesystem (simfs)", "goroutine scheduler decisions (baton, drawn from the tape)"),
		HangSeconds: 120, // single runs of this check take seconds, more on a loaded machine
		FaultKinds:  []string{"schedule_switch", "restart"},
		After:       c19RacePhase,
		AfterFirst:  true,
	})
}

const canaryByte = 0xA5
const canaryLen = 96

// withCanary clones the application with bytecode slices that have spare capacity filled with a canary.
func withCanary(a *app.App) (*app.App, map[string][]byte) {
	c := a
	bufs := map[string][]byte{}
	for _, n := range a.Nodes {
		code, _ := a.Bytecode(n.Name)
		buf := make([]byte, len(code)+canaryLen)
		copy(buf, code)
		for i := len(code); i < len(buf); i++ {
			buf[i] = canaryByte
		}
		bufs[n.Name] = buf
		c = c.WithBytecode(n.Name, buf[:len(code)])
	}
	return c, bufs
}

func canaryIntact(a *app.App, orig *app.App, bufs map[string][]byte) string {
	if os.Getenv("VISIM_NO_CANARY") != "" {
		return "" // self-test knob: lets the race-detector oracle be exercised on its own
	}
	for _, n := range orig.Nodes {
		code, _ := orig.Bytecode(n.Name)
		buf := bufs[n.Name]
		if !bytes.Equal(buf[:len(code)], code) {
			return fmt.Sprintf("bytecode of node %s was modified", n.Name)
		}
		for i := len(code); i < len(buf); i++ {
			if buf[i] != canaryByte {
				return fmt.Sprintf("spare capacity of the shared bytecode slice of node %s was written (offset +%d = %02x)", n.Name, i-len(code), buf[i])
			}
		}
	}
	return ""
}

type c19Sess struct {
	id        string
	persisted bool
	fresh     []bool
	inputs    [][]byte
	solo      []world.Step
	conc      []world.Step
}

func runC19(c *core.Ctx) *core.Outcome {
	t := c.T
	o := core.NewOutcome()
	cfg := genCfg(t)
	cfg.FinishAlways = true
	cfg.SetSession = true
	useFs := t.Chance(1, 3)
	cfg.Backend = world.BackMem
	if useFs {
		cfg.Backend = world.BackFs
	}
	p := fullProfile(t, cfg.FlagCount)
	p.BigValues = false
	a := app.Generate(t, p)
	if err := a.Validate(); err != nil {
		panic("generator produced ill-formed app: " + err.Error())
	}
	// one run in 6: sessions in different languages on the same paginated node (browse labels of different
	// lengths): whatever the library derives from a label and keeps must not reach the session next to it
	langRun := t.Chance(1, 6)
	if langRun {
		a = langPagedApp(t)
		cfg.OutputSize = uint32(t.Range(48, 90))
		cfg.CacheSize = 0
		cfg.Language = ""
		o.Probes["sessions_in_different_languages_on_one_paginated_node"]++
	}
	// Every world of this run - the concurrent one and the one each session is served alone in - gets its own
	// instance of the application: templates and label symbols carry a stamp that no other world of the process
	// has (c19Stamp), so that anything the library remembers process-wide by content or by name starts cold in
	// each of them. What a session served alone sees is then what it sees in a process of its own; what it sees
	// next to others may only differ if something leaked. Transcripts are compared with the stamps blanked.
	// one run in 8 (applications without static-load symbols): the sessions are served through ONE gettext
	// resource of the library, loaded once from generated .po files - templates and labels are immutable
	// application data - with the catalogues of only some languages registered up front
	poRun := !langRun && t.Chance(1, 8)
	for _, e := range a.Ext {
		if e.Static != nil {
			poRun = false
		}
	}
	regMask := t.Int(4)
	register := func(lg string) bool {
		for i, x := range a.Langs {
			if x == lg {
				return regMask&(1<<uint(i%2)) != 0
			}
		}
		return false
	}
	if poRun {
		o.Probes["sessions_share_one_gettext_resource"]++
	}
	nsess := []int{2, 2, 3, 3, 4, 6, 8, 16}[t.Int(8)]
	bias := t.Chance(1, 2)
	var ss []*c19Sess
	for k := 0; k < nsess; k++ {
		t.Begin("session")
		s := &c19Sess{id: fmt.Sprintf("s%d", k), persisted: t.Chance(1, 2)}
		nreq := t.Range(1, 6)
		// inputs are chosen by walking the reference model (no library code runs here), so that
		// the concurrent phase is the first to touch the library with this application
		m := refvm.New(a, refvm.Cfg{FlagCount: cfg.FlagCount, CacheSize: cfg.CacheSize, Language: cfg.Language})
		if langRun {
			script := [][]byte{nil, []byte("1"), []byte("11"), []byte("22"), []byte("11")}
			if k%2 == 1 {
				script = [][]byte{nil, []byte("2"), []byte("0"), []byte("1"), []byte("11"), []byte("22")}
			}
			for i := range script {
				s.inputs = append(s.inputs, script[i])
				s.fresh = append(s.fresh, s.persisted && t.Chance(2, 3))
			}
			nreq = 0
		}
		for i := 0; i < nreq; i++ {
			var in []byte
			if i > 0 {
				cur := ""
				if len(m.Path) > 0 {
					cur = m.Path[len(m.Path)-1]
				}
				in = genInput(t, a, cur, 1)
			}
			s.inputs = append(s.inputs, in)
			s.fresh = append(s.fresh, s.persisted && t.Chance(2, 3))
			looksRefused := len(in) > 255 || (len(in) > 0 && !isAlnumPlus(in[0]))
			if !looksRefused {
				e := m.Request(in)
				if !e.Skip && (!e.Cont || e.ExecErr) && !s.persisted {
					break
				}
			}
		}
		ss = append(ss, s)
		t.End()
	}
	// concurrent run over one fresh copy of the shared tables
	stampC := c19NewStamp()
	aC := c19Stamp(a, stampC)
	a2, bufs2 := withCanary(aC)
	var shared *simfs.FS
	if useFs {
		shared = simfs.New()
		defer shared.Unmount()
	}
	sc := sched.New()
	var sharedRes resource.Resource
	byID := map[string]*world.Sess{}
	var cws []*world.World
	var csess []*world.Sess
	for _, s := range ss {
		w := world.New(a2, cfg)
		if useFs {
			w.Disk = shared
			w.UseFs(false)
		} else {
			w.UseMem()
		}
		ws := w.NewSession(s.id, s.persisted)
		byID[s.id] = ws
		cws, csess = append(cws, w), append(csess, ws)
	}
	if poRun {
		// built before any task exists: the tasks only ever read it
		rs, dir, err := world.SharedPoResource(a2, byID, register)
		if dir != "" {
			defer os.RemoveAll(dir)
		}
		if err != nil {
			panic("C19 harness: cannot build the shared gettext resource: " + err.Error())
		}
		sharedRes = rs
		for _, w := range cws {
			w.ResFor = func(*world.Sess) resource.Resource { return sharedRes }
		}
	}
	for k, s := range ss {
		s := s
		w, ws := cws[k], csess[k]
		sc.Go(func(yield func(string)) {
			w.Rec.OnEvent = func(_ int, kind string) {
				yield(kind)
			}
			if useFs {
				// every file-system call of this task is a scheduling point too: the sessions share a
				// directory, and what one does between two calls of another is part of the schedule
				simfs.SetOpHook(func(kind string) { yield("fs:" + kind) })
			}
			for i := range s.inputs {
				st := ws.Request(s.inputs[i], s.fresh[i])
				s.conc = append(s.conc, *st)
				if st.Panic != "" || (st.ExecErr != "" && !st.Cont) || (!st.Cont && !s.persisted) {
					break
				}
			}
			if useFs {
				simfs.ClearOpHook()
			}
			w.Rec.OnEvent = nil
		})
	}
	switches := 0
	sc.Run(func(runnable []int, last int, lastTag string) int {
		// biased: keep the task running unless it just fetched code or finished a request
		if bias && last >= 0 {
			for _, r := range runnable {
				if r == last && lastTag != "GetCode" && lastTag != "Done" {
					if t.Chance(3, 4) {
						return last
					}
				}
			}
		}
		id := runnable[t.Int(len(runnable))]
		if last >= 0 && id != last {
			switches++
		}
		return id
	})
	o.Faults["schedule_switch"] += switches
	for _, s := range ss {
		for i, st := range s.conc {
			if st.Fresh && i > 0 {
				o.Faults["restart"]++
			}
		}
	}
	var sb strings.Builder
	for _, id := range sc.Trace {
		fmt.Fprintf(&sb, "%x", id)
	}
	o.States = append(o.States, h64(sb.String()))
	o.TraceHash = h64(sb.String(), nsess)
	// the same sessions served one after another, each in a fresh world over a fresh copy of the tables
	for k, s := range ss {
		stampS := c19NewStamp()
		aS := c19Stamp(a, stampS)
		a1, bufs1 := withCanary(aS)
		w := world.New(a1, cfg)
		var disk *simfs.FS
		if useFs {
			disk = w.UseFs(false)
		} else {
			w.UseMem()
		}
		ws := w.NewSession(s.id, s.persisted)
		if poRun {
			rs, dir, err := world.SharedPoResource(a1, map[string]*world.Sess{s.id: ws}, register)
			if dir != "" {
				defer os.RemoveAll(dir)
			}
			if err != nil {
				panic("C19 harness: cannot build the gettext resource: " + err.Error())
			}
			w.ResFor = func(*world.Sess) resource.Resource { return rs }
		}
		for i := range s.inputs {
			st := ws.Request(s.inputs[i], s.fresh[i])
			c19Blank(st, stampS)
			s.solo = append(s.solo, *st)
			if st.Panic != "" || (st.ExecErr != "" && !st.Cont) || (!st.Cont && !s.persisted) {
				break
			}
		}
		if disk != nil {
			disk.Unmount()
		}
		o.Counts["requests"] += len(s.solo) + len(s.conc)
		o.Counts["sim_ticks"] += w.Rec.Ticks()
		if msg := canaryIntact(a1, aS, bufs1); msg != "" {
			o.Fail("shared-table-written", k, map[string]string{"phase": "solo"}, "serving session %s alone: %s", s.id, msg)
			o.Scenario = scenario(w, nil)
			return o
		}
	}
	active := 0
	for _, s := range ss {
		if len(s.solo) >= 2 {
			active++
		}
	}
	o.Nontrivial = active >= 2 && switches >= 2
	scen := func() map[string]interface{} {
		var l []interface{}
		for _, s := range ss {
			var ins []string
			for _, in := range s.inputs {
				ins = append(ins, string(in))
			}
			l = append(l, map[string]interface{}{"id": s.id, "persisted": s.persisted, "inputs": ins, "solo": s.solo, "concurrent": s.conc})
		}
		return map[string]interface{}{"config": cfg, "app": a.Text(), "sessions": l, "schedule": sb.String(), "biased": bias}
	}
	for _, s := range ss {
		for i := range s.conc {
			c19Blank(&s.conc[i], stampC)
		}
	}
	for k, s := range ss {
		if len(s.solo) != len(s.conc) {
			o.Fail("interference", k, nil, "session %s served %d requests alone but %d concurrently", s.id, len(s.solo), len(s.conc))
			o.Scenario = scen()
			return o
		}
		for i := range s.solo {
			if stepSig(&s.solo[i]) != stepSig(&s.conc[i]) {
				o.Fail("interference", k, nil, "session %s request %d input %s: served alone (cont=%v err=%q out=%s) != served concurrently with %d others (cont=%v err=%q panic=%q out=%s)",
					s.id, i, short(string(s.inputs[i])), s.solo[i].Cont, s.solo[i].ExecErr, short(s.solo[i].Out), nsess-1, s.conc[i].Cont, s.conc[i].ExecErr, s.conc[i].Panic, short(s.conc[i].Out))
				o.Scenario = scen()
				return o
			}
		}
	}
	if msg := canaryIntact(a2, aC, bufs2); msg != "" {
		o.Fail("shared-table-written", 0, map[string]string{"phase": "concurrent"}, "serving %d sessions concurrently: %s", nsess, msg)
		o.Scenario = scen()
		return o
	}
	if c.WantScenario {
		o.Scenario = scen()
	}
	return o
}

// c19RacePhase runs a share of the worlds again in the -race build, one child process per
// stripe (so that a report can be attributed to one run), and turns exit code 66 into a
// violation whose replay is that run's tape.
func c19RacePhase(opt core.Options, cov map[string]interface{}) ([]core.ExtViolation, error) {
	bin := filepath.Join(binDir(opt.VerifDir), "visim-race")
	if _, err := os.Stat(bin); err != nil {
		return nil, fmt.Errorf("race-detector binary %s missing: %v", bin, err)
	}
	n := core.Registry["C19"].Runs[opt.Tier]
	if opt.RunsOverride > 0 {
		n = opt.RunsOverride
	}
	share := n / 3
	budget := 25 * time.Second
	if opt.Tier == "thorough" {
		share = n
		budget = 600 * time.Second
	}
	if share < 1 {
		share = 1
	}
	procs := runtime.GOMAXPROCS(0)
	if procs > share {
		procs = share
	}
	per := uint64((share + procs - 1) / procs)
	type res struct {
		ran  int
		last int64
		code int
		out  string
		err  error
	}
	results := make([]res, procs)
	var wg sync.WaitGroup
	deadline := time.Now().Add(budget)
	for p := 0; p < procs; p++ {
		wg.Add(1)
		go func(p int) {
			defer wg.Done()
			ctx, cancel := context.WithDeadline(context.Background(), deadline)
			defer cancel()
			cmd := exec.CommandContext(ctx, bin, "stripe", "C19", "--tier", opt.Tier, "--seed", fmt.Sprint(opt.Seed), "--start", fmt.Sprint(p), "--stride", fmt.Sprint(procs), "--count", fmt.Sprint(per))
			cmd.Env = append(os.Environ(), "GORACE=halt_on_error=1 exitcode=66", "GOMAXPROCS=2", "VERIF_DIR="+opt.VerifDir)
			var stdout, stderr bytes.Buffer
			cmd.Stdout = &stdout
			cmd.Stderr = &stderr
			err := cmd.Run()
			r := res{last: -1}
			for _, l := range strings.Split(stdout.String(), "\n") {
				if strings.HasPrefix(l, "RUN ") {
					fmt.Sscanf(l, "RUN %d", &r.last)
					r.ran++
				}
			}
			if cmd.ProcessState != nil {
				r.code = cmd.ProcessState.ExitCode()
			}
			if ctx.Err() != nil {
				r.code = 0 // out of budget: what ran, ran
				err = nil
			}
			r.out = stderr.String()
			r.err = err
			results[p] = r
		}(p)
	}
	wg.Wait()
	ran := 0
	var ext []core.ExtViolation
	for _, r := range results {
		ran += r.ran
		switch r.code {
		case 0:
		case 66:
			ext = append(ext, core.ExtViolation{RunIndex: uint64(r.last), Class: "data-race", Msg: "the race detector (blind to the scheduler's hand-offs) reports conflicting accesses between session tasks:\n" + firstN(r.out, 60)})
		default:
			return nil, fmt.Errorf("race child ended with exit code %d: %v\n%s", r.code, r.err, firstN(r.out, 30))
		}
	}
	cov["race_detector_worlds"] = ran
	cov["race_detector_processes"] = procs
	cov["race_detector_reports"] = len(ext)
	sort.Slice(ext, func(i, j int) bool { return ext[i].RunIndex < ext[j].RunIndex })
	return ext, nil
}

func firstN(s string, n int) string {
	l := strings.Split(s, "\n")
	if len(l) > n {
		l = l[:n]
	}
	return strings.Join(l, "\n")
}

func binDir(verif string) string {
	if b := os.Getenv("VISIM_BIN"); b != "" {
		return b
	}
	return filepath.Join(verif, "bin")
}

func isAlnumPlus(b byte) bool {
	return b == '+' || (b >= '0' && b <= '9') || (b >= 'a' && b <= 'z') || (b >= 'A' && b <= 'Z')
}

// c19Execs numbers the application instances built in this process. The number is not part of the run's tape:
// it only names things (blanked before anything is compared or hashed), so that a second execution of the same
// run - the determinism resample, the shrinker - does not find what the first one left behind in the library.
var c19Execs uint64

func c19NewStamp() string {
	n := strconv.FormatUint(atomic.AddUint64(&c19Execs, 1)%60466176, 36) // 36^5
	return "w" + strings.Repeat("0", 5-len(n)) + n
}

// c19Stamp returns a copy of the application whose template texts and label symbols carry the stamp.
func c19Stamp(a *app.App, stamp string) *app.App {
	b := &app.App{Root: a.Root, Ext: a.Ext, Langs: a.Langs, Labels: map[string]map[string]string{}}
	ren := func(l string) string { return l + "_" + stamp }
	for k, v := range a.Labels {
		m := map[string]string{}
		for lg, txt := range v {
			m[lg] = txt
		}
		b.Labels[ren(k)] = m
	}
	for _, n := range a.Nodes {
		nn := &app.Node{Name: n.Name, Kind: n.Kind, NegProbe: n.NegProbe, Tpl: map[string]string{}, Code: append([]app.Inst(nil), n.Code...)}
		for lg, tpl := range n.Tpl {
			if i := strings.Index(tpl, "|"); i >= 0 {
				tpl = tpl[:i+1] + stamp + " " + tpl[i+1:]
			}
			nn.Tpl[lg] = tpl
		}
		for i := range nn.Code {
			switch nn.Code[i].Op {
			case app.MOUT, app.MNEXT, app.MPREV:
				nn.Code[i].A = ren(nn.Code[i].A)
			}
		}
		b.Nodes = append(b.Nodes, nn)
	}
	b.Index()
	return b
}

// c19Blank replaces the stamp in everything of a step that is compared.
func c19Blank(st *world.Step, stamp string) {
	blank := strings.Repeat("#", len(stamp))
	st.Out = strings.ReplaceAll(st.Out, stamp, blank)
	st.ExecErr = strings.ReplaceAll(st.ExecErr, stamp, blank)
	st.FlushErr = strings.ReplaceAll(st.FlushErr, stamp, blank)
	st.FinishErr = strings.ReplaceAll(st.FinishErr, stamp, blank)
	st.Panic = strings.ReplaceAll(st.Panic, stamp, blank)
}
