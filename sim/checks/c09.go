package checks

import (
	"fmt"
	"sort"
	"strings"

	"git.defalsify.org/vise.git/cache"
	"git.defalsify.org/vise.git/persist"
	memdb "git.defalsify.org/vise.git/db/mem"

	"visim/core"
	"visim/world"
)

func init() {
	core.Register(&core.Check{
		ID:    "C09",
		Level: "exploration",
		Rule: "one run = one seeded history of up to 40 cache operations (Add/Update/Get/Push/Pop/Reset/Last/ReservedSize/Keys/Levels) over 1..5 keys, value lengths from {0,1,limit-1,limit,limit+1,255,256,65535,65536,65536+k,<=70000}, limits 0..65535, capacity {unlimited,tight,generous}, " +
			"checked operation by operation against a reference cache and for failure atomicity; in one sub-batch the cache is serialised and restored into a fresh object between operations (restart); " +
			"non-trivial = at least one rejected operation and one Pop/Reset releasing bytes; distinct = distinct sequences of (operation, outcome, levels, used size)",
		Runs:       map[string]int{"quick": 30000, "thorough": 5000000},
		MaxSeconds: map[string]int{"quick": 40, "thorough": 900},
		Run:        runC09,
		Assumptions: []string{
			"the cache is a sequential component: the simulation contributes operation histories, snapshot/restore as a fault and a reference model, not schedules",
			"an operation the reference model would accept may be rejected by the cache (counted as a probe, not a violation: the property does not demand acceptance)",
			"Pop on the only remaining scope is documented as failing; its effect is not compared with the model",
		},
		Real:       []string{"cache", "persist (Serialize/Deserialize for the restart sub-batch)"},
		Stub:       []string{"client of the cache API (seeded operation generator)"},
		FaultKinds: []string{"restart"},
	})
}

var bigString = strings.Repeat("abcdefghijklmnopqrstuvwxyz0123456789", 2000) // 72000 bytes

type refCache struct {
	levels []map[string]string
	sizes  map[string]uint16
	cap    uint32
}

func (r *refCache) use() uint32 {
	var s uint32
	for _, m := range r.levels {
		for _, v := range m {
			s += uint32(len(v))
		}
	}
	return s
}

func (r *refCache) find(k string) int {
	for i, m := range r.levels {
		if _, ok := m[k]; ok {
			return i
		}
	}
	return -1
}

type cacheSnap struct {
	key string
}

func cacheKey(ca *cache.Cache) string {
	var lv []string
	for l, m := range ca.Cache {
		var ks []string
		for k, v := range m {
			ks = append(ks, fmt.Sprintf("%s=%d:%x", k, len(v), h64(v)))
		}
		sort.Strings(ks)
		lv = append(lv, fmt.Sprintf("%d:%v", l, ks))
	}
	var sz []string
	for k, v := range ca.Sizes {
		sz = append(sz, fmt.Sprintf("%s:%d", k, v))
	}
	sort.Strings(sz)
	return fmt.Sprintf("use=%d cap=%d levels=%v sizes=%v last=%d:%x", ca.CacheUseSize, ca.CacheSize, lv, sz, len(ca.LastValue), h64(ca.LastValue))
}

func runC09(c *core.Ctx) *core.Outcome {
	t := c.T
	o := core.NewOutcome()
	ca := cache.NewCache()
	ref := &refCache{levels: []map[string]string{{}}, sizes: map[string]uint16{}}
	t.Begin("cfg")
	switch t.Weighted(2, 2, 2) {
	case 1:
		ref.cap = uint32(t.Range(1, 300))
	case 2:
		ref.cap = uint32([]int{65535, 65536, 70000, 140000, 1 << 20}[t.Int(5)])
	}
	if ref.cap > 0 {
		ca = ca.WithCacheSize(ref.cap)
	}
	restartMode := t.Chance(1, 3)
	nkeys := t.Range(1, 5)
	t.End()
	keys := []string{"ka", "kb", "kc", "kd", "ke"}[:nkeys]
	nops := t.Range(1, 40)
	var trace []string
	rejected, released := 0, 0
	var mem cache.Memory = ca
	fail := func(class string, step int, format string, a ...interface{}) *core.Outcome {
		o.Fail(class, step, nil, format, a...)
		o.Scenario = map[string]interface{}{"capacity": ref.cap, "restart_mode": restartMode, "ops": trace}
		o.TraceHash = h64(strings.Join(trace, ";"))
		return o
	}
	drawLen := func(limit int) int {
		switch t.Weighted(3, 2, 2, 2, 2, 1, 1, 1, 1, 1, 1) {
		case 0:
			return t.Range(1, 30)
		case 1:
			return 0
		case 2:
			if limit > 0 {
				return limit
			}
			return 1
		case 3:
			if limit > 0 {
				return limit + 1
			}
			return 2
		case 4:
			if limit > 1 {
				return limit - 1
			}
			return 1
		case 5:
			return 255
		case 6:
			return 256
		case 7:
			return 65535
		case 8:
			return 65536
		case 9:
			return 65536 + t.Range(0, 300)
		default:
			return t.Range(0, 70000)
		}
	}
	for i := 0; i < nops; i++ {
		t.Begin("op")
		op := t.Weighted(6, 5, 3, 3, 3, 1, 1, 1)
		key := keys[t.Int(len(keys))]
		var limit, vlen int
		switch op {
		case 0:
			switch t.Weighted(3, 2, 1, 1) {
			case 0:
				limit = t.Range(1, 40)
			case 1:
				limit = 0
			case 2:
				limit = []int{255, 256, 65535, 65534}[t.Int(4)]
			case 3:
				limit = t.Range(1, 65535)
			}
			vlen = drawLen(limit)
		case 1:
			vlen = drawLen(int(ref.sizes[key]))
		}
		doRestart := restartMode && t.Chance(1, 4)
		t.End()
		if doRestart {
			// snapshot/restore: serialise, restore into a fresh cache
			store := memdb.NewMemDb()
			pe := persist.NewPersister(store).WithContent(nil, ca)
			var b []byte
			var err error
			msg, at := world.Guard(func() { b, err = pe.Serialize() })
			if msg != "" || err != nil {
				return fail("snapshot-failed", i, "serialising the cache failed: %s %v (%s)", msg, err, at)
			}
			pe2 := persist.NewPersister(store)
			msg, at = world.Guard(func() { err = pe2.Deserialize(b) })
			if msg != "" || err != nil {
				return fail("restore-failed", i, "restoring the cache failed: %s %v (%s)", msg, err, at)
			}
			before := cacheKey(ca)
			ca2, _ := pe2.GetMemory().(*cache.Cache)
			if ca2 == nil {
				return fail("restore-failed", i, "restored persister has no cache")
			}
			after := cacheKey(ca2)
			if before != after {
				return fail("snapshot-restore-changed-cache", i, "cache differs after snapshot/restore:\n before %s\n after  %s", before, after)
			}
			ca = ca2
			mem = ca
			o.Faults["restart"]++
			trace = append(trace, "restart")
		}
		before := cacheKey(ca)
		useBefore := ca.CacheUseSize
		val := bigString[:vlen]
		var err error
		var got string
		desc := ""
		var pmsg, pat string
		switch op {
		case 0:
			desc = fmt.Sprintf("Add(%s,len=%d,limit=%d)", key, vlen, limit)
			pmsg, pat = world.Guard(func() { err = mem.Add(key, val, uint16(limit)) })
		case 1:
			desc = fmt.Sprintf("Update(%s,len=%d)", key, vlen)
			pmsg, pat = world.Guard(func() { err = mem.Update(key, val) })
		case 2:
			desc = fmt.Sprintf("Get(%s)", key)
			pmsg, pat = world.Guard(func() { got, err = mem.Get(key) })
		case 3:
			desc = "Push"
			pmsg, pat = world.Guard(func() { err = mem.Push() })
		case 4:
			desc = "Pop"
			pmsg, pat = world.Guard(func() { err = mem.Pop() })
		case 5:
			desc = "Reset"
			pmsg, pat = world.Guard(func() { mem.Reset() })
		case 6:
			desc = "Last"
			pmsg, pat = world.Guard(func() { got = mem.Last() })
		case 7:
			desc = fmt.Sprintf("ReservedSize(%s)+Keys+Levels", key)
			pmsg, pat = world.Guard(func() {
				_, err = mem.ReservedSize(key)
				for l := uint32(0); l < mem.Levels(); l++ {
					mem.Keys(l)
				}
			})
		}
		outcome := "ok"
		if err != nil {
			outcome = "rejected"
		}
		trace = append(trace, desc+"->"+outcome)
		if pmsg != "" {
			return fail("panic:"+pat, i, "%s panicked: %s", desc, pmsg)
		}
		after := cacheKey(ca)
		o.States = append(o.States, h64(op, outcome, len(ca.Cache), ca.CacheUseSize))
		// failure atomicity
		if err != nil && (op == 0 || op == 1 || op == 2 || op == 7) {
			rejected++
			if after != before {
				return fail("rejected-op-changed-cache", i, "%s was rejected (%v) but changed the cache:\n before %s\n after  %s", desc, err, before, after)
			}
		}
		// model step
		switch op {
		case 0:
			modelOK := !(limit > 0 && vlen > limit) && ref.find(key) < 0 && !(ref.cap > 0 && ref.use()+uint32(vlen) > ref.cap)
			if err == nil {
				if limit > 0 && vlen > limit {
					return fail("limit-not-enforced", i, "%s accepted a value of %d bytes under a limit of %d", desc, vlen, limit)
				}
				if ref.find(key) >= 0 {
					return fail("symbol-in-two-scopes", i, "%s accepted although the symbol is already defined in scope %d", desc, ref.find(key))
				}
				ref.levels[len(ref.levels)-1][key] = val
				ref.sizes[key] = uint16(limit)
			} else if modelOK {
				o.Probes["unexpected_rejection_add"]++
			}
		case 1:
			lim := int(ref.sizes[key])
			fr := ref.find(key)
			modelOK := fr >= 0 && !(lim > 0 && vlen > lim) && !(ref.cap > 0 && ref.use()-uint32(len(ref.levels[max0(fr)][key]))+uint32(vlen) > ref.cap)
			if err == nil {
				if fr < 0 {
					return fail("update-of-undefined", i, "%s accepted although the symbol is not defined", desc)
				}
				if lim > 0 && vlen > lim {
					return fail("limit-not-enforced", i, "%s accepted a value of %d bytes under a limit of %d", desc, vlen, lim)
				}
				ref.levels[fr][key] = val
			} else if modelOK {
				o.Probes["unexpected_rejection_update"]++
				if vlen == 0 {
					o.Probes["unexpected_rejection_update_empty"]++
				}
			}
		case 2:
			fr := ref.find(key)
			if err == nil {
				if fr < 0 {
					return fail("get-of-undefined", i, "%s returned %d bytes for a symbol that is not defined", desc, len(got))
				}
				if got != ref.levels[fr][key] {
					return fail("get-wrong-value", i, "%s returned %d bytes (hash %x), expected %d bytes (hash %x)", desc, len(got), h64(got), len(ref.levels[fr][key]), h64(ref.levels[fr][key]))
				}
			} else if fr >= 0 {
				return fail("get-lost-value", i, "%s failed (%v) although the symbol is defined in scope %d", desc, err, fr)
			}
		case 3:
			ref.levels = append(ref.levels, map[string]string{})
		case 4:
			if len(ref.levels) > 1 {
				top := ref.levels[len(ref.levels)-1]
				var bytes uint32
				for k, v := range top {
					bytes += uint32(len(v))
					delete(ref.sizes, k)
				}
				ref.levels = ref.levels[:len(ref.levels)-1]
				if bytes > 0 {
					released++
				}
				if useBefore-ca.CacheUseSize != bytes {
					return fail("pop-released-wrong-bytes", i, "Pop released %d bytes, the scope held %d", useBefore-ca.CacheUseSize, bytes)
				}
			} else {
				// documented as failing; the implementation empties the base scope: follow it, do not judge
				for k := range ref.levels[0] {
					delete(ref.sizes, k)
				}
				ref.levels[0] = map[string]string{}
				o.Probes["pop_on_last_scope"]++
			}
		case 5:
			var bytes uint32
			for _, m := range ref.levels[1:] {
				for _, v := range m {
					bytes += uint32(len(v))
				}
			}
			if bytes > 0 {
				released++
			}
			ref.levels = ref.levels[:1]
		}
		// cross invariants after every operation
		var sum uint32
		seen := map[string]int{}
		for l, m := range ca.Cache {
			for k, v := range m {
				sum += uint32(len(v))
				if p, ok := seen[k]; ok {
					return fail("symbol-in-two-scopes", i, "after %s: symbol %s in scopes %d and %d", desc, k, p, l)
				}
				seen[k] = l
			}
		}
		if sum != ca.CacheUseSize {
			return fail("cache-accounting", i, "after %s: CacheUseSize=%d but stored values sum to %d", desc, ca.CacheUseSize, sum)
		}
		if ca.CacheSize > 0 && ca.CacheUseSize > ca.CacheSize {
			return fail("capacity-exceeded", i, "after %s: used %d of capacity %d", desc, ca.CacheUseSize, ca.CacheSize)
		}
		if len(ca.Cache) != len(ref.levels) {
			return fail("levels-mismatch", i, "after %s: %d scopes, model has %d", desc, len(ca.Cache), len(ref.levels))
		}
		for l, m := range ref.levels {
			if len(m) != len(ca.Cache[l]) {
				return fail("scope-content-mismatch", i, "after %s: scope %d holds %d symbols, model %d", desc, l, len(ca.Cache[l]), len(m))
			}
			for k, v := range m {
				if ca.Cache[l][k] != v {
					return fail("scope-content-mismatch", i, "after %s: scope %d symbol %s holds %d bytes, model %d", desc, l, k, len(ca.Cache[l][k]), len(v))
				}
			}
		}
		if vlen >= 65536 && (op == 0 || op == 1) {
			o.Probes["value_ge_64k"]++
		}
	}
	o.Counts["operations"] = len(trace)
	o.Counts["sim_ticks"] = len(trace)
	o.Nontrivial = rejected > 0 && released > 0
	if c.WantScenario {
		o.Scenario = map[string]interface{}{"capacity": ref.cap, "restart_mode": restartMode, "ops": trace}
	}
	o.TraceHash = h64(strings.Join(trace, ";"))
	return o
}

func max0(i int) int {
	if i < 0 {
		return 0
	}
	return i
}
