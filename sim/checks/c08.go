package checks

import (
	"context"
	"sort"
	"strings"

	"git.defalsify.org/vise.git/db"
	memdb "git.defalsify.org/vise.git/db/mem"

	"visim/app"
	"visim/core"
	"visim/examples"
	"visim/tape"
	"visim/world"
)

func init() {
	core.Register(&core.Check{
		ID:    "C08",
		Level: "exploration",
		Rule: "one run = one well-formed application (generated, or one of the repository's examples assembled with the real assembler) + configuration + mode (long-lived/persisted/mixed, any backend) + a junk-heavy input history; " +
			"the first requests of every example are swept systematically over its selector alphabet plus junk representatives (sub-batch), the rest is drawn; " +
			"non-trivial = at least 3 requests executed and at least one junk or out-of-range input; distinct = distinct sequences of abstract session states",
		Runs:       map[string]int{"quick": 70000, "thorough": 5000000},
		MaxSeconds: map[string]int{"quick": 45, "thorough": 900},
		Run:        runC08,
		Prefix:     c08Prefix,
		Assumptions: []string{
			"well-formedness as stated by the property: targets exist, _catch defined, flags in range, no self-move, every move cycle passes a HALT; one run in 50 of the generated kind is a two-node application whose nodes descend into each other, driven to and beyond 128 stack entries",
			"panics of the harness' own stubs are infrastructure errors, not violations",
		},
		Real:            append(append([]string{}, realAll...), "db/fs (compiled against the simulated os)", "db/postgres", "asm (assembling the examples)"),
		Stub:            append(append([]string{}, stubAll...), "OS filesystem (simfs)", "Postgres server (pgfake)"),
		HangIsViolation: true, // the property promises that requests are served
		FaultKinds:      []string{"restart", "ext_error", "ext_oversize", "client_garbage", "client_browse_oob", "first_func_error", "first_func_blocks_request", "template_lookup_error", "client_write_error"},
	})
}

// sweep alphabet of an example: its selectors plus junk representatives
func sweepAlphabet(a *app.App) [][]byte {
	var out [][]byte
	for _, s := range a.AllSelectors() {
		out = append(out, []byte(s))
	}
	out = append(out, []byte("x"), []byte("11"), []byte("22"))
	out = append(out, junkInputs...)
	return out
}

func c08Depth(tier string) int {
	if tier == "thorough" {
		return 3
	}
	return 2
}

func c08SweepSizes(tier string) []uint64 {
	var l []uint64
	for _, ex := range examples.All() {
		n := uint64(len(sweepAlphabet(ex.App)))
		tot := uint64(1)
		for i := 0; i < c08Depth(tier); i++ {
			tot *= n
		}
		l = append(l, tot)
	}
	return l
}

func c08Prefix(tier string, i uint64) []uint64 {
	sizes := c08SweepSizes(tier)
	for ex, tot := range sizes {
		if i < tot {
			n := uint64(len(sweepAlphabet(examples.All()[ex].App)))
			p := []uint64{2, uint64(ex)}
			for d := 0; d < c08Depth(tier); d++ {
				p = append(p, i%n)
				i /= n
			}
			return p
		}
		i -= tot
	}
	return nil
}

func runC08(c *core.Ctx) *core.Outcome {
	t := c.T
	o := core.NewOutcome()
	exs := examples.All()
	var a *app.App
	var cfg world.Cfg
	var sweep [][]byte
	deepReq := 0
	kind := 0
	if len(exs) > 0 {
		kind = t.Weighted(6, 3, 1)
	} else {
		t.Draw(1)
	}
	exName := ""
	switch kind {
	case 0:
		cfg = genCfg(t)
		p := fullProfile(t, cfg.FlagCount)
		p.UpAtRoot = t.Chance(1, 3)
		p.BigValues = t.Chance(1, 10)
		p.CatchLoad = true
		if t.Chance(1, 50) {
			// a client that keeps descending: nothing in the property bounds the depth of a well-formed application
			a = deepApp(t)
			deepReq = t.Range(120, 140)
			o.Probes["deep_run"]++
			break
		}
		a = app.Generate(t, p)
		if err := a.Validate(); err != nil {
			panic("generator produced ill-formed app: " + err.Error())
		}
	default:
		ex := exs[t.Int(len(exs))]
		exName = ex.Name
		a = ex.App
		if kind == 2 {
			alpha := sweepAlphabet(a)
			for d := 0; d < c08Depth(c.Tier); d++ {
				sweep = append(sweep, alpha[t.Int(len(alpha))])
			}
			o.Probes["sweep_run"]++
		}
		cfg = genCfg(t)
		cfg.FlagCount = ex.FlagCount + uint32(t.Int(2))
	}
	cfg.Backend = t.Weighted(4, 2, 1, 2)
	cfg.SetSession = t.Chance(1, 2)
	cfg.FinishAlways = t.Chance(1, 3)
	cfg.First = t.Chance(1, 4)
	if deepReq > 0 && t.Chance(2, 3) {
		cfg.First = true
	}
	cfg.ResetOnEmpty = t.Chance(1, 6)
	mode := t.Weighted(2, 3, 2) // long-lived, persisted, mixed
	w := world.New(a, cfg)
	w.UseBackend()
	defer w.Close()
	s := w.NewSession("s1", mode != 0)
	maxReq := 16
	if c.Tier == "thorough" {
		maxReq = 24
	}
	nreq := t.Range(2, maxReq)
	nreq += deepReq
	if t.Chance(1, 5) {
		if err := w.UseDbResource(); err != nil {
			panic("cannot build DbResource: " + err.Error())
		}
		o.Probes["db_resource_stack"]++
	}
	junk := 0
	for i := 0; i < nreq; i++ {
		t.Begin("request")
		var in []byte
		if i > 0 && i-1 < len(sweep) {
			in = sweep[i-1]
		} else if i > 0 {
			cur := ""
			if p, _ := s.Position(); len(p) > 0 {
				cur = p[len(p)-1]
			}
			in = genInput(t, a, cur, 6)
			if i <= deepReq {
				// the climb: descend, now and then stay or step back once - but never rewind, or the depth is never reached
				in = [][]byte{[]byte("1"), []byte("5"), []byte("0")}[t.Weighted(60, 1, 1)]
			}
			if cfg.ResetOnEmpty && t.Chance(1, 4) {
				in = []byte{}
				o.Probes["empty_input_with_reset_on_empty"]++
			}
		}
		fresh := mode == 1 || (mode == 2 && t.Chance(1, 2))
		ffChance := 8
		if deepReq > 0 {
			ffChance = 60 // every failure costs the climb a request
		}
		if cfg.First && t.Chance(1, ffChance) {
			s.FailFirstNext = true
		}
		if cfg.First && deepReq > 0 {
			// a failing pre-VM function right at the depth limit is where its error handling runs out of room
			if p, _ := s.Position(); len(p) >= 127 && t.Chance(1, 2) {
				s.FailFirstNext = true
			}
		}
		if t.Chance(1, 14) {
			s.FailTemplateThisRequest = true
		}
		if t.Chance(1, 20) {
			s.FailWriteThisRequest = true
		}
		if cfg.First && deepReq == 0 && !s.FailFirstNext && t.Chance(1, 10) {
			// the pre-VM function turns the request away (TERMINATE plus a notice of a drawn length)
			s.BlockFirstNext = strings.Repeat("barred ", t.Range(1, 40))
		}
		t.End()
		ff := s.FirstFailed
		fb := s.FirstBlocked
		st := s.Request(in, fresh)
		s.BlockFirstNext = ""
		if s.FirstBlocked > fb {
			o.Faults["first_func_blocks_request"]++
		}
		if s.FirstFailed > ff {
			o.Faults["first_func_error"]++
			if deepReq > 0 {
				if p, _ := s.Position(); len(p) >= 126 {
					o.Probes["first_func_error_at_126_or_more_entries"]++
				}
			}
		}
		o.Counts["requests"]++
		if st.Fresh && i > 0 {
			o.Faults["restart"]++
		}
		if st.ExecErr != "" && st.Cont {
			o.Faults["client_garbage"]++
			junk++
		}
		if st.Panic != "" {
			return finishC08(o, c, w, exName).Fail("panic:"+st.PanicAt, i, map[string]string{"site": st.PanicAt},
				"request %d input %s: library panicked in %s: %s", i, short(string(in)), st.PanicAt, st.Panic)
		}
		if deepReq > 0 {
			if p, _ := s.Position(); len(p) >= 127 {
				o.Probes["deep_request_at_127_or_more_entries"]++
			}
		}
		o.States = append(o.States, stateHash(s))
		if cl, msg := consistency(s.St, s.Ca); cl != "" {
			return finishC08(o, c, w, exName).Fail(cl, i, nil, "after request %d input %s: %s", i, short(string(in)), msg)
		}
		if s.Ca != nil && s.Ca.CacheSize != cfg.CacheSize {
			// the size accounting of a session includes what it is accounted against: the capacity the
			// gateway configured (the same for every request of the run) is not the session's to lose
			return finishC08(o, c, w, exName).Fail("cache-capacity-changed", i, nil, "after request %d input %s: the session's symbol cache has capacity %d, configured is %d (used %d)", i, short(string(in)), s.Ca.CacheSize, cfg.CacheSize, s.Ca.CacheUseSize)
		}
		// the session can still be saved, loaded and continued
		if s.St != nil && s.Ca != nil && (t.Chance(1, 3) || s.FirstFailed > ff) {
			if v := probeContinue(w, s, i); v != nil {
				o.V = v
				return finishC08(o, c, w, exName)
			}
			o.Probes["save_load_continue"]++
		}
		if !st.Cont && st.ExecErr == "" {
			o.Probes["session_end"]++
			if mode == 0 {
				break // Exec after stop on the same engine is documented as undefined
			}
		}
		if st.ExecErr != "" && !st.Cont {
			o.Probes["exec_error"]++
			if mode == 0 {
				break
			}
		}
	}
	o.Nontrivial = o.Counts["requests"] >= 3 && junk >= 1
	return finishC08(o, c, w, exName)
}

func finishC08(o *core.Outcome, c *core.Ctx, w *world.World, ex string) *core.Outcome {
	if c.WantScenario || o.V != nil {
		o.Scenario = scenario(w, map[string]interface{}{"example": ex})
	}
	return finish(o, w)
}

// probeContinue saves the session state, loads it into fresh objects and serves one more
// request from it in a side world (so the main history is not disturbed).
func probeContinue(w *world.World, s *world.Sess, step int) *core.Violation {
	b, pm, pa, err := snapshot(s.St, s.Ca)
	if pm != "" {
		return &core.Violation{Class: "panic:" + pa, Step: step, Msg: "saving the session panicked: " + pm, Attrs: map[string]string{"site": pa}}
	}
	if err != nil {
		return &core.Violation{Class: "cannot-save", Step: step, Msg: "session cannot be serialised: " + err.Error()}
	}
	st2, ca2, pm, pa, err := restore(b)
	if pm != "" {
		return &core.Violation{Class: "panic:" + pa, Step: step, Msg: "loading the session panicked: " + pm, Attrs: map[string]string{"site": pa}}
	}
	if err != nil {
		return &core.Violation{Class: "cannot-load", Step: step, Msg: "saved session cannot be loaded: " + err.Error()}
	}
	if cl, msg := consistency(st2, ca2); cl != "" {
		return &core.Violation{Class: "reload-" + cl, Step: step, Msg: "after save+load: " + msg}
	}
	// continue in a side world from the stored bytes
	w2 := world.New(w.App, w.Cfg)
	store := memdb.NewMemDb()
	store.Connect(context.Background(), "")
	store.SetPrefix(db.DATATYPE_STATE)
	if w.Cfg.SetSession {
		store.SetSession(s.ID)
	}
	if err := store.Put(context.Background(), []byte(s.ID), b); err != nil {
		return nil
	}
	w2.NewStore = func(*world.Sess) (db.Db, error) { return store, nil }
	s2 := w2.NewSession(s.ID, true)
	keys := make([]string, 0, len(s.Calls))
	for k := range s.Calls {
		keys = append(keys, k)
	}
	sort.Strings(keys)
	for _, k := range keys {
		s2.Calls[k] = s.Calls[k]
	}
	st := s2.Request([]byte("1"), true)
	if st.Panic != "" {
		return &core.Violation{Class: "panic:" + st.PanicAt, Step: step, Attrs: map[string]string{"site": st.PanicAt},
			Msg: "continuing the saved+loaded session with input \"1\" panicked in " + st.PanicAt + ": " + st.Panic}
	}
	return nil
}

var _ = tape.Mix
