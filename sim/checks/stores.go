package checks

import (
	"context"
	"fmt"
	"sort"

	"git.defalsify.org/vise.git/db"
	fsdb "git.defalsify.org/vise.git/db/fs"
	memdb "git.defalsify.org/vise.git/db/mem"
	pgdb "git.defalsify.org/vise.git/db/postgres"
	"git.defalsify.org/vise.git/lang"

	"visim/pgfake"
	"visim/simfs"
	"visim/world"
)

// backend under test: a durable medium plus handles with sticky context.
type medium struct {
	name    string
	kind    int
	disk    *simfs.FS
	pg      *pgfake.Server
	mem     db.Db
	handles []db.Db
	// tooLong: (type, session, key) triples for which this medium refused a write because the file name
	// would be too long - the backend does not accept them, reads of them are not judged
	tooLong map[string]bool
}

func newMedium(kind int) *medium {
	m := &medium{name: world.BackendNames[kind], kind: kind}
	switch kind {
	case world.BackFs, world.BackFsBin:
		m.disk = simfs.New()
	case world.BackPg:
		m.pg = pgfake.NewServer()
	}
	return m
}

func (m *medium) close() {
	if m.disk != nil {
		m.disk.Unmount()
	}
}

// open returns a fresh handle on the medium (for mem: the one and only handle).
func (m *medium) open() (db.Db, error) {
	ctx := context.Background()
	switch m.kind {
	case world.BackMem:
		if m.mem == nil {
			s := memdb.NewMemDb()
			if err := s.Connect(ctx, ""); err != nil {
				return nil, err
			}
			m.mem = s
		}
		return m.mem, nil
	case world.BackFs, world.BackFsBin:
		s := fsdb.NewFsDb()
		if m.kind == world.BackFsBin {
			s = s.WithBinary()
		}
		if err := s.Connect(ctx, m.disk.Root()+"/store"); err != nil {
			return nil, err
		}
		return s, nil
	default:
		return pgdb.NewPgDb().WithConnection(m.pg.Connect()), nil
	}
}

// ---------------------------------------------------------------------------------------
// reference store

const (
	tBin    = 1
	tMenu   = 2
	tTpl    = 4
	tStatic = 8
	tState  = 16
	tUser   = 32
)

var allTypes = []uint8{tBin, tMenu, tTpl, tStatic, tState, tUser}
var typeNames = map[uint8]string{tBin: "bin", tMenu: "menu", tTpl: "template", tStatic: "staticload", tState: "state", tUser: "userdata", 0: "unknown"}

func sessioned(t uint8) bool { return t == tState || t == tUser }
func langed(t uint8) bool    { return t == tMenu || t == tTpl || t == tStatic }

type refCtx struct {
	pfx    uint8
	sid    string
	lang   string // sticky language ("" none)
	lock   uint8
	sealed bool
}

func newRefCtx() refCtx { return refCtx{lock: tBin | tMenu | tTpl | tStatic} }

type refStore struct {
	m map[string][]byte
}

func refKey(t uint8, sid, key, lg string) string {
	if !sessioned(t) {
		sid = "-"
	} else {
		sid = "s:" + sid
	}
	if !langed(t) {
		lg = "-"
	} else {
		lg = "l:" + lg
	}
	return fmt.Sprintf("%d|%s|%q|%s", t, sid, key, lg)
}

func (r *refStore) put(c *refCtx, ctxLang string, key string, val []byte) {
	lg := c.lang
	if lg == "" {
		lg = ctxLang
	}
	r.m[refKey(c.pfx, c.sid, key, lg)] = append([]byte(nil), val...)
}

func (r *refStore) get(c *refCtx, ctxLang string, key string) ([]byte, bool) {
	lg := c.lang
	if lg == "" {
		lg = ctxLang
	}
	if langed(c.pfx) && lg != "" {
		if v, ok := r.m[refKey(c.pfx, c.sid, key, lg)]; ok {
			return v, true
		}
	}
	v, ok := r.m[refKey(c.pfx, c.sid, key, "")]
	return v, ok
}

func langPtr(code string) *lang.Language {
	if code == "" {
		return nil
	}
	l, err := lang.LanguageFromCode(code)
	if err != nil {
		return nil
	}
	return &l
}

func ctxWithLang(code string) context.Context {
	ctx := context.Background()
	if code == "" {
		return ctx
	}
	if l := langPtr(code); l != nil {
		return context.WithValue(ctx, "Language", *l)
	}
	return ctx
}

func sortedKeys(m map[string][]byte) []string {
	var l []string
	for k := range m {
		l = append(l, k)
	}
	sort.Strings(l)
	return l
}
