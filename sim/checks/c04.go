package checks

import (
	"strings"

	"visim/app"
	"visim/core"
	"visim/world"
)

var _ = world.BackMem

func init() {
	core.Register(&core.Check{
		ID:    "C04",
		Level: "exploration",
		Rule: "one run = one generated node graph (depth <= 8, every target kind from MOVE, INCMP and CATCH, single-candidate routing after each HALT, multi-page nodes) + an input history mixing descents, ascents, rewinds, repeats, lateral and failing moves, restarts at request boundaries, all backends in rotation; " +
			"after every request the position (node path, page index) read from the live/persisted state must equal the documented move table applied to the moves executed; non-trivial = at least 2 different kinds of move executed (descent, ascent, rewind, lateral, same-path, failing), one of them not a descent; distinct = distinct sequences of (move kind, path, index)",
		Runs:       map[string]int{"quick": 60000, "thorough": 3000000},
		MaxSeconds: map[string]int{"quick": 40, "thorough": 900},
		Run:        runC04,
		Assumptions: []string{
			"requests in which the NUMBER of moves differs from the model's are left to C03/C06 (counted as skipped_upstream); half of the runs use single-candidate routing, the other half unambiguous multi-line INCMP blocks (no duplicate selectors, wildcard last) so that lateral moves and ascents can follow each other",
			"'^' issued while already on the entry node: the documentation does not say whether the page index is reset; not compared",
			"a lateral move beyond the last page is reported by a failing render or lands on the catch node (the model does not know page counts)",
		},
		Real:       append(append([]string{}, realAll...), "db/fs (compiled against the simulated os)", "db/postgres"),
		Stub:       append(append([]string{}, stubAll...), "reference model refvm (oracle)", "OS filesystem (simfs)", "Postgres server (pgfake)"),
		FaultKinds: []string{"restart", "first_func_blocks_request", "ext_error", "client_browse_oob", "client_garbage"},
	})
}

func c04Profile(flagCount uint32, single bool) app.Profile {
	return app.Profile{
		MaxNodes: 7, MaxExt: 3, FlagCount: flagCount,
		Sinks: true, Menus: true, Browse: true, Catch: true,
		ExtErrPct: 3, SingleRoute: single, RelTargets: true, UpAtRoot: true,
		MaxRows: 12, CatchShape: -1, RelWeight: 7,
	}
}

func targetKind(t string) string {
	switch t {
	case "_", "^", ".", ">", "<":
		return t
	}
	return "named"
}

func runC04(c *core.Ctx) *core.Outcome {
	t := c.T
	o := core.NewOutcome()
	cfg := genCfg(t)
	cfg.Backend = t.Weighted(3, 2, 1, 2)
	cfg.CacheSize = 0
	cfg.FinishAlways = true
	cfg.SetSession = t.Chance(1, 2)
	cfg.First = t.Chance(1, 4) // a pre-VM function is no move: the position must not notice it
	cfg.Debug = t.Chance(1, 4) // an attached debugger looks, it does not touch
	longMenus := t.Chance(1, 3)
	if cfg.OutputSize > 0 && cfg.OutputSize < 40 {
		cfg.OutputSize = 60 // multi-page nodes, not refused renders, are the point here
	}
	if t.Chance(1, 2500) {
		return c04Marathon(c, o, cfg)
	}
	// one run in 60 is a deep one: two nodes that descend into each other, a stack of up to 128
	// entries (the limit the library enforces is not approached from above here: C08 does that)
	deep := t.Chance(1, 60)
	var a *app.App
	if deep {
		a = deepApp(t)
		cfg.OutputSize = 0
		o.Probes["deep_run"]++
	} else {
		prof := c04Profile(cfg.FlagCount, t.Chance(1, 2))
		prof.LongMenus = longMenus
		a = app.Generate(t, prof)
	}
	if err := a.Validate(); err != nil {
		panic("generator produced ill-formed app: " + err.Error())
	}
	persisted := t.Chance(2, 3)
	r := newModelRun(a, cfg, persisted)
	defer r.w.Close()
	nreq := t.Range(2, 14)
	descents := 0
	if deep {
		descents = []int{127, 126, 128, 100}[t.Weighted(4, 2, 2, 1)] - 1 // stack entries wanted, minus the root
		nreq += descents + 1
	}
	kinds := map[string]bool{}
	for i := 0; i < nreq; i++ {
		t.Begin("request")
		var in []byte
		cur := r.curNode()
		if i > 0 {
			in = genInput(t, a, cur, 1)
		}
		fresh := persisted && t.Chance(3, 4)
		if deep && i > 0 && i <= descents {
			in = []byte("1")
			fresh = persisted && (i%16 == 0 || i >= descents-2)
		} else if deep && string(in) == "1" && len(r.m.Path) >= 128 {
			in = []byte("0") // state.MaxLevel entries: the library refuses to go deeper
		}
		if deep && len(r.m.Path) >= 127 {
			o.Probes["deep_request_at_127_or_more_entries"]++
		}
		turnedAway := persisted && cfg.First && i > 0 && !deep && t.Chance(1, 8)
		t.End()
		if turnedAway {
			// the pre-VM function answers this request itself (TERMINATE plus a notice): no instruction runs,
			// so no move is executed and the position - node path and page index - is what it was
			r.s.BlockFirstNext = "barred"
			st := r.s.Request(in, true)
			r.s.BlockFirstNext = ""
			o.Counts["requests"]++
			o.Faults["first_func_blocks_request"]++
			if st.Panic != "" {
				o.Probes["foreign_panic"]++
				break
			}
			if !r.m.Ended && !r.m.Blocked {
				ap, ai := r.s.Position()
				if strings.Join(ap, "/") != strings.Join(r.m.Path, "/") || ai != r.m.Idx {
					return finishModel(o, c, r).Fail("position-changed-by-turned-away-request", i, nil,
						"request %d input %s was turned away by the pre-VM function (no instruction ran): the position is %v/%d, before the request it was %v/%d", i, short(string(in)), ap, ai, r.m.Path, r.m.Idx)
				}
			}
			continue
		}
		before := strings.Join(r.m.Path, "/")
		ob := r.request(in, fresh)
		o.Counts["requests"]++
		if ob.st.Fresh && i > 0 {
			o.Faults["restart"]++
		}
		if ob.panic {
			o.Probes["foreign_panic"]++
			break
		}
		if ob.refused {
			o.Faults["client_garbage"]++
			continue
		}
		if ob.exp.Skip {
			o.Counts["out_of_envelope"]++
			break
		}
		// which target kinds did the request execute (from the model's view of the node code)
		if n := a.Node(cur); n != nil {
			for _, in2 := range n.Code {
				if in2.Op == app.MOVE || in2.Op == app.INCMP || in2.Op == app.CATCH {
					_ = in2
				}
			}
		}
		if ob.exp.ExecErr && strings.HasPrefix(ob.exp.ErrWhy, "failing-move") {
			o.Probes["failing_move_"+strings.TrimPrefix(ob.exp.ErrWhy, "failing-move:")]++
			kinds["failing"] = true
			reported := ob.st.ExecErr != "" || (last(ob.actPath) == "_catch" && ob.page.Prefix != "")
			if !reported {
				return finishModel(o, c, r).Fail("failing-move-not-reported", i, map[string]string{"target": strings.TrimPrefix(ob.exp.ErrWhy, "failing-move:")},
					"request %d input %s from %s: the move %s must fail here, but the request succeeded at %v index %d with output %s", i, short(string(in)), before, ob.exp.ErrWhy, ob.actPath, ob.actIdx, short(ob.st.Out))
			}
			// what follows a failed request is not in the model; but if the stored session then starts over
			// with a move to the entry node, that move is in the table like any other: [entry] index 0
			if persisted && ob.st.ExecErr != "" {
				nx := r.s.Request([]byte{}, true)
				o.Counts["requests"]++
				if nx.Panic == "" && nx.ExecErr == "" && len(nx.Moves) > 0 && nx.Moves[0] == a.Root {
					if p, idx := r.s.Position(); len(p) == 1 && p[0] == a.Root && idx != 0 {
						return finishModel(o, c, r).Fail("wrong-page-index", i+1, map[string]string{"move": "restart-after-failed-move"},
							"request %d (after the failed move of request %d, input %s from %s) starts the session over with a move to %s, position %v index %d: a move to a named node gives page index 0", i+1, i, short(string(in)), before, a.Root, p, idx)
					}
					o.Probes["restart_after_failed_move_checked"]++
				}
			}
			break
		}
		if ob.exp.ExecErr || ob.st.ExecErr != "" {
			break
		}
		if ob.browseOOR {
			o.Faults["client_browse_oob"]++
		}
		if len(ob.st.Moves) != len(ob.exp.Moves) {
			o.Counts["skipped_upstream"]++
			break
		}
		// classify executed moves by comparing consecutive positions of the model
		after := strings.Join(r.m.Path, "/")
		mk := "same-path"
		switch {
		case ob.exp.LateralMove:
			mk = "lateral"
		case len(after) > len(before) && strings.HasPrefix(after, before):
			mk = "descent"
		case len(after) < len(before) && strings.HasPrefix(before, after):
			if len(r.m.Path) == 1 && strings.Count(before, "/") > 1 {
				mk = "rewind"
			} else {
				mk = "ascent"
			}
		}
		if len(ob.exp.Moves) > 0 {
			kinds[mk] = true
			o.Probes["move_"+mk]++
		}
		o.States = append(o.States, h64(mk, strings.Join(r.m.Path, "/"), r.m.Idx))
		if ob.exp.GracefulEnd || ob.exp.Abnormal || !ob.exp.Cont {
			break
		}
		if !ob.pathAgree || !ob.idxAgree {
			class := "wrong-position"
			if ob.pathAgree {
				class = "wrong-page-index"
			}
			return finishModel(o, c, r).Fail(class, i, map[string]string{"move": mk}, "request %d input %s from %s (moves %v): position is %v index %d, the documented move table gives %v index %d", i, short(string(in)), before, ob.st.Moves, ob.actPath, ob.actIdx, r.m.Path, r.m.Idx)
		}
		if !ob.st.Cont {
			break
		}
	}
	nk := 0
	rel := false
	for k := range kinds {
		nk++
		if k != "descent" && k != "same-path" {
			rel = true
		}
	}
	o.Nontrivial = nk >= 2 && rel
	return finishModel(o, c, r)
}

// c04Marathon: '>' many thousand times in a row on one node. The table says '>' changes only the page
// index, by one; nothing in it stops at any particular index (what the renderer makes of a page
// that does not exist is another matter: the request reports a render error, the position moves).
func c04Marathon(c *core.Ctx, o *core.Outcome, cfg world.Cfg) *core.Outcome {
	t := c.T
	a := &app.App{Root: "root", Labels: map[string]map[string]string{}}
	a.Nodes = append(a.Nodes, &app.Node{Name: "root", Kind: app.KMenu, Tpl: map[string]string{"": "@root|$"}, Code: []app.Inst{
		{Op: app.HALT}, {Op: app.INCMP, A: ">", B: "1"}, {Op: app.INCMP, A: "<", B: "2"}}})
	a.Nodes = append(a.Nodes, &app.Node{Name: "_catch", Kind: app.KCatch, Tpl: map[string]string{"": "@_catch|oops$"}, Code: []app.Inst{{Op: app.HALT}, {Op: app.MOVE, A: "_"}}})
	a.Index()
	cfg.Backend = world.BackMem
	cfg.OutputSize = 0
	cfg.First = false
	persisted := t.Chance(1, 3)
	w := world.New(a, cfg)
	w.UseBackend()
	defer w.Close()
	s := w.NewSession("s", persisted)
	n := []int{32800, 33000, 40000, 300}[t.Int(4)]
	s.Request(nil, persisted)
	o.Probes["page_index_marathon"]++
	for k := 1; k <= n; k++ {
		st := s.Request([]byte("1"), persisted && k%64 == 0)
		o.Counts["requests"]++
		if st.Panic != "" {
			o.Probes["foreign_panic"]++
			return finish(o, w)
		}
		if st.ExecErr != "" {
			o.Scenario = map[string]interface{}{"requests": k, "persisted": persisted}
			return finish(o, w).Fail("wrong-page-index", k, map[string]string{"move": "lateral-marathon"}, "the %d-th '>' in a row on node root fails with %q; '>' changes only the page index, by one", k, st.ExecErr)
		}
		if p, idx := s.Position(); len(p) != 1 || p[0] != "root" || int(idx) != k {
			o.Scenario = map[string]interface{}{"requests": k, "persisted": persisted}
			return finish(o, w).Fail("wrong-page-index", k, map[string]string{"move": "lateral-marathon"}, "after %d '>' in a row on node root the position is %v index %d, the table gives [root] index %d", k, p, idx, k)
		}
	}
	o.States = append(o.States, h64("marathon", n, persisted))
	o.Nontrivial = true
	return finish(o, w)
}
