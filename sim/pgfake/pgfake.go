// Package pgfake is an in-process transactional fake of the part of Postgres that
// db/postgres can observe through pgx: three statement shapes over one key/value table,
// read-committed transactions, statement errors poisoning the transaction, closed
// transactions refusing calls, and a busy connection while a result set is open.
// Every primitive driver call is numbered and logged; any of them can be made to fail.
// It is a stub of a Postgres server, stated as such in the evidence.
package pgfake

import (
	"bytes"
	"context"
	"errors"
	"fmt"
	"sort"
	"strings"

	pgx "github.com/jackc/pgx/v5"
	"github.com/jackc/pgx/v5/pgconn"
)

// Fault kinds (what the armed call does).
const (
	FaultErr         = 1 // the call fails; for Commit: nothing was committed
	FaultCommitDoubt = 2 // Commit applies its writes but reports an error (outcome in doubt)
	FaultCancel      = 3 // the request's context runs out while the call is in flight: the call fails with the context's error, and so does every later call made with that context
)

type Call struct {
	Idx   int    `json:"idx"`
	Tx    int    `json:"tx"`
	Conn  int    `json:"conn"`
	Op    string `json:"op"`
	Fault int    `json:"fault,omitempty"`
	Err   string `json:"err,omitempty"`
}

type Server struct {
	// OnCancel is called when a FaultCancel fires: the harness cancels the context of the operation in flight.
	OnCancel  func()
	Committed map[string][]byte
	Log       []Call
	calls     int
	txSeq     int
	connSeq   int
	Faults    map[int]int // call index -> fault kind
	Fired     map[string]int
	open      map[int]*Tx
	// protocol violations by the client code (calls on ended transactions etc.)
	Misuse []string
	// Suspend: calls are neither counted, logged nor faulted (observer reads)
	Suspend bool
	Ended   map[int]string // tx id -> how it ended (commit, rollback, conn-drop)
}

func NewServer() *Server {
	return &Server{Committed: map[string][]byte{}, Faults: map[int]int{}, Fired: map[string]int{}, open: map[int]*Tx{}, Ended: map[int]string{}}
}

// Calls is the number of primitive calls made so far.
func (s *Server) Calls() int { return s.calls }

// OpenTx lists ids of transactions begun and not ended.
func (s *Server) OpenTx() []int {
	var l []int
	for id := range s.open {
		l = append(l, id)
	}
	sort.Ints(l)
	return l
}

func (s *Server) call(conn, tx int, op string) (int, *Call) {
	if s.Suspend {
		return 0, &Call{}
	}
	s.calls++
	c := Call{Idx: s.calls, Tx: tx, Conn: conn, Op: op}
	f := s.Faults[s.calls]
	if f != 0 {
		c.Fault = f
		s.Fired[op]++
		if f == FaultCancel && s.OnCancel != nil {
			s.OnCancel()
		}
	}
	s.Log = append(s.Log, c)
	return f, &s.Log[len(s.Log)-1]
}

var ErrInjected = errors.New("pgfake: injected failure")

// injErr is the error of an injected fault.
func injErr(f int) error {
	if f == FaultCancel {
		return context.Canceled
	}
	return ErrInjected
}

// done reports that the context of a call has run out before the call (an earlier call of the same
// operation was cancelled): the driver does not reach the server with it.
func done(ctx context.Context) bool { return ctx != nil && ctx.Err() != nil }

// Conn implements postgres.PgInterface.
type Conn struct {
	s      *Server
	id     int
	closed bool
	txs    []*Tx
}

func (s *Server) Connect() *Conn {
	s.connSeq++
	return &Conn{s: s, id: s.connSeq}
}

func (c *Conn) ID() int { return c.id }

func (c *Conn) BeginTx(ctx context.Context, opts pgx.TxOptions) (pgx.Tx, error) {
	f, rec := c.s.call(c.id, 0, "BeginTx")
	if c.closed {
		rec.Err = "closed pool"
		return nil, errors.New("closed pool")
	}
	if f != 0 {
		rec.Err = "injected"
		return nil, injErr(f)
	}
	if done(ctx) {
		rec.Err = "context done"
		return nil, ctx.Err()
	}
	c.s.txSeq++
	t := &Tx{s: c.s, c: c, id: c.s.txSeq, writes: map[string][]byte{}}
	rec.Tx = t.id
	c.s.open[t.id] = t
	c.txs = append(c.txs, t)
	return t, nil
}

// Close drops the connection: transactions left open are rolled back by the server.
func (c *Conn) Close() {
	if !c.s.Suspend {
		// not a failing primitive: logged, but neither counted nor faultable
		c.s.Log = append(c.s.Log, Call{Idx: c.s.calls, Conn: c.id, Op: "ConnClose"})
	}
	c.closed = true
	for _, t := range c.txs {
		if !t.ended {
			t.ended = true
			t.endedBy = "conn-drop"
			c.s.Ended[t.id] = "conn-drop"
			delete(c.s.open, t.id)
		}
	}
}

// Drop simulates the process dying: like Close but not logged as a client call.
func (c *Conn) Drop() {
	c.closed = true
	for _, t := range c.txs {
		if !t.ended {
			t.ended = true
			t.endedBy = "conn-drop"
			delete(c.s.open, t.id)
		}
	}
}

type Tx struct {
	s        *Server
	c        *Conn
	id       int
	writes   map[string][]byte
	poisoned bool
	ended    bool
	endedBy  string
	rows     *Rows // open result set, if any
	Ends     int   // number of Commit/Rollback calls that ended or tried to end it
}

func (t *Tx) ID() int { return t.id }

func (t *Tx) busy() bool { return t.rows != nil && !t.rows.closed }

func (t *Tx) Begin(ctx context.Context) (pgx.Tx, error) {
	return nil, errors.New("pgfake: nested transactions not supported")
}

func (t *Tx) Commit(ctx context.Context) error {
	f, rec := t.s.call(t.c.id, t.id, "Commit")
	if t.ended {
		t.s.Misuse = append(t.s.Misuse, fmt.Sprintf("call %d: Commit on ended tx %d", rec.Idx, t.id))
		rec.Err = "tx closed"
		return pgx.ErrTxClosed
	}
	if t.busy() {
		rec.Err = "conn busy"
		return errors.New("conn busy")
	}
	t.ended = true
	t.endedBy = "commit"
	t.s.Ended[t.id] = "commit"
	delete(t.s.open, t.id)
	if f == FaultErr || f == FaultCancel {
		rec.Err = "injected (not committed)"
		return injErr(f)
	}
	if done(ctx) {
		// pgx: the commit does not reach the server, the connection is given up and the server rolls back
		rec.Err = "context done (not committed)"
		t.endedBy = "rollback"
		t.s.Ended[t.id] = "rollback"
		return ctx.Err()
	}
	if t.poisoned {
		rec.Err = "commit of aborted tx: rolled back"
		return pgx.ErrTxCommitRollback
	}
	for k, v := range t.writes {
		t.s.Committed[k] = v
	}
	if f == FaultCommitDoubt {
		rec.Err = "injected (committed, in doubt)"
		return ErrInjected
	}
	return nil
}

func (t *Tx) Rollback(ctx context.Context) error {
	f, rec := t.s.call(t.c.id, t.id, "Rollback")
	if t.ended {
		// not a misuse: pgx documents Rollback on a closed Tx as a safe no-op returning ErrTxClosed
		// ("a defer tx.Rollback() is safe even if tx.Commit() will be called first"); nothing reaches the server
		rec.Err = "tx closed (no-op)"
		return pgx.ErrTxClosed
	}
	if t.rows != nil {
		t.rows.closed = true
	}
	t.ended = true
	t.endedBy = "rollback"
	t.s.Ended[t.id] = "rollback"
	delete(t.s.open, t.id)
	if f != 0 {
		rec.Err = "injected"
		return injErr(f)
	}
	if done(ctx) {
		// pgx: the rollback cannot be sent, the connection is closed instead - which ends the transaction on the server all the same
		rec.Err = "context done (connection given up, rolled back)"
		return ctx.Err()
	}
	return nil
}

func (t *Tx) CopyFrom(ctx context.Context, tableName pgx.Identifier, columnNames []string, rowSrc pgx.CopyFromSource) (int64, error) {
	return 0, errors.New("pgfake: CopyFrom not supported")
}
func (t *Tx) SendBatch(ctx context.Context, b *pgx.Batch) pgx.BatchResults { return nil }
func (t *Tx) LargeObjects() pgx.LargeObjects                               { return pgx.LargeObjects{} }
func (t *Tx) Prepare(ctx context.Context, name, sql string) (*pgconn.StatementDescription, error) {
	return nil, errors.New("pgfake: Prepare not supported")
}
func (t *Tx) QueryRow(ctx context.Context, sql string, args ...any) pgx.Row { return nil }
func (t *Tx) Conn() *pgx.Conn                                               { return nil }

func argBytes(a any) ([]byte, error) {
	switch v := a.(type) {
	case []byte:
		return v, nil
	case string:
		return []byte(v), nil
	}
	return nil, fmt.Errorf("pgfake: unsupported argument type %T", a)
}

func (t *Tx) pre(op string) (*Call, int, error) {
	f, rec := t.s.call(t.c.id, t.id, op)
	if t.ended {
		t.s.Misuse = append(t.s.Misuse, fmt.Sprintf("call %d: %s on ended tx %d", rec.Idx, op, t.id))
		rec.Err = "tx closed"
		return rec, f, pgx.ErrTxClosed
	}
	if t.busy() {
		rec.Err = "conn busy"
		return rec, f, errors.New("conn busy")
	}
	if t.poisoned {
		rec.Err = "in failed sql transaction"
		return rec, f, errors.New("ERROR: current transaction is aborted, commands ignored until end of transaction block (SQLSTATE 25P02)")
	}
	if f != 0 {
		t.poisoned = true
		rec.Err = "injected"
		return rec, f, injErr(f)
	}
	return rec, f, nil
}

func (t *Tx) Exec(ctx context.Context, sql string, args ...any) (pgconn.CommandTag, error) {
	rec, _, err := t.pre("Exec")
	if err != nil {
		return pgconn.CommandTag{}, err
	}
	if done(ctx) {
		rec.Err = "context done"
		t.poisoned = true
		return pgconn.CommandTag{}, ctx.Err()
	}
	q := strings.TrimSpace(sql)
	switch {
	case strings.HasPrefix(q, "CREATE TABLE"):
		return pgconn.NewCommandTag("CREATE TABLE"), nil
	case strings.HasPrefix(q, "INSERT INTO"):
		if len(args) < 2 {
			t.poisoned = true
			rec.Err = "bad args"
			return pgconn.CommandTag{}, errors.New("pgfake: INSERT needs two arguments")
		}
		k, e1 := argBytes(args[0])
		v, e2 := argBytes(args[1])
		if e1 != nil || e2 != nil {
			t.poisoned = true
			return pgconn.CommandTag{}, errors.New("pgfake: bad argument types")
		}
		if v == nil {
			// value BYTEA NOT NULL
			t.poisoned = true
			rec.Err = "null value"
			return pgconn.CommandTag{}, errors.New("ERROR: null value in column \"value\" violates not-null constraint (SQLSTATE 23502)")
		}
		t.writes[string(k)] = append([]byte{}, v...)
		return pgconn.NewCommandTag("INSERT 0 1"), nil
	}
	t.poisoned = true
	rec.Err = "unknown statement"
	return pgconn.CommandTag{}, fmt.Errorf("pgfake: unknown statement: %s", q)
}

func (t *Tx) lookup(k string) ([]byte, bool) {
	if v, ok := t.writes[k]; ok {
		return v, true
	}
	v, ok := t.s.Committed[k]
	return v, ok
}

func (t *Tx) Query(ctx context.Context, sql string, args ...any) (pgx.Rows, error) {
	rec, _, err := t.pre("Query")
	if err != nil {
		return nil, err
	}
	if done(ctx) {
		rec.Err = "context done"
		t.poisoned = true
		return nil, ctx.Err()
	}
	q := strings.TrimSpace(sql)
	if len(args) < 1 {
		t.poisoned = true
		return nil, errors.New("pgfake: query needs an argument")
	}
	k, e := argBytes(args[0])
	if e != nil {
		t.poisoned = true
		return nil, e
	}
	r := &Rows{t: t}
	switch {
	case strings.HasPrefix(q, "SELECT value FROM") && strings.Contains(q, "key = $1"):
		if v, ok := t.lookup(string(k)); ok {
			r.data = append(r.data, [][]byte{append([]byte{}, v...)})
		}
	case strings.HasPrefix(q, "SELECT key, value FROM") && strings.Contains(q, "key >= $1"):
		keys := map[string]bool{}
		for kk := range t.s.Committed {
			keys[kk] = true
		}
		for kk := range t.writes {
			keys[kk] = true
		}
		var ks []string
		for kk := range keys {
			if bytes.Compare([]byte(kk), k) >= 0 {
				ks = append(ks, kk)
			}
		}
		sort.Strings(ks)
		for _, kk := range ks {
			v, _ := t.lookup(kk)
			r.data = append(r.data, [][]byte{[]byte(kk), append([]byte{}, v...)})
		}
	default:
		t.poisoned = true
		rec.Err = "unknown statement"
		return nil, fmt.Errorf("pgfake: unknown statement: %s", q)
	}
	t.rows = r
	return r, nil
}

type Rows struct {
	t      *Tx
	data   [][][]byte
	pos    int // index of the current row + 1
	closed bool
	err    error
}

func (r *Rows) Close()                                       { r.closed = true }
func (r *Rows) Err() error                                   { return r.err }
func (r *Rows) CommandTag() pgconn.CommandTag                { return pgconn.NewCommandTag("SELECT") }
func (r *Rows) FieldDescriptions() []pgconn.FieldDescription { return nil }
func (r *Rows) Values() ([]any, error)                       { return nil, errors.New("pgfake: Values not supported") }
func (r *Rows) RawValues() [][]byte                          { return nil }
func (r *Rows) Conn() *pgx.Conn                              { return nil }

func (r *Rows) Next() bool {
	f, rec := r.t.s.call(r.t.c.id, r.t.id, "Next")
	if r.closed {
		return false
	}
	if f != 0 {
		// row fetch fails: the result set ends with an error and the transaction is aborted
		rec.Err = "injected"
		r.err = injErr(f)
		r.closed = true
		r.t.poisoned = true
		return false
	}
	if r.pos >= len(r.data) {
		r.closed = true
		return false
	}
	r.pos++
	return true
}

func (r *Rows) Scan(dest ...any) error {
	f, rec := r.t.s.call(r.t.c.id, r.t.id, "Scan")
	if r.pos == 0 || r.pos > len(r.data) {
		rec.Err = "no row"
		return errors.New("pgfake: Scan without a current row")
	}
	if f != 0 {
		rec.Err = "injected"
		r.closed = true // pgx closes the rows on a scan error
		r.err = injErr(f)
		return injErr(f)
	}
	row := r.data[r.pos-1]
	if len(dest) != len(row) {
		r.closed = true
		return fmt.Errorf("pgfake: Scan of %d columns into %d destinations", len(row), len(dest))
	}
	for i, d := range dest {
		p, ok := d.(*[]byte)
		if !ok {
			r.closed = true
			return fmt.Errorf("pgfake: unsupported Scan destination %T", d)
		}
		*p = append([]byte{}, row[i]...)
	}
	return nil
}
