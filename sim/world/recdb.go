package world

import (
	"context"
	"errors"

	"git.defalsify.org/vise.git/db"
	"git.defalsify.org/vise.git/lang"

	"visim/simfs"
)

// MarkDb wraps a store handle and brackets every Put with markers in the simulated
// disk's step log, so that crash points can be attributed to a save without knowing how
// the backend writes.
type MarkDb struct {
	db.Db
	Disk *simfs.FS
	Puts int
}

func (m *MarkDb) Put(ctx context.Context, key []byte, val []byte) error {
	m.Puts++
	m.Disk.Mark("put-begin", string(key))
	err := m.Db.Put(ctx, key, val)
	m.Disk.Mark("put-end", string(key))
	return err
}

func (m *MarkDb) SetLanguage(l *lang.Language) { m.Db.SetLanguage(l) }

// FaultDb wraps the store handle a persister is given: the read of the session record fails once with
// an I/O-style error (a connection reset, an EIO) when the session asks for it.
type FaultDb struct {
	db.Db
	S   *Sess
	pfx uint8
}

func (f *FaultDb) SetPrefix(p uint8) { f.pfx = p; f.Db.SetPrefix(p) }

func (f *FaultDb) SetLanguage(l *lang.Language) { f.Db.SetLanguage(l) }

func (f *FaultDb) Get(ctx context.Context, key []byte) ([]byte, error) {
	if f.S.FailLoadThisRequest && f.pfx == db.DATATYPE_STATE {
		f.S.FailLoadThisRequest = false
		f.S.LoadFailed++
		f.S.W.Fired["store_read_error"]++
		f.S.W.Rec.Add(f.S.Idx, "Load", string(key), "FAULT")
		return nil, errors.New("injected store read error: connection reset by peer")
	}
	return f.Db.Get(ctx, key)
}
