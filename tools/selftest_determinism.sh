#!/bin/bash
# Determinism self-test: for every check, the trace hashes of the first N runs must be
# identical across many processes at different GOMAXPROCS and worker counts; so must what each run
# contributes to the evidence measures (hash of its abstract states, non-triviality).
# usage: selftest_determinism.sh [N=200] [PROCS=30] [ids...]
set -u
VERIF="$(cd "$(dirname "$0")/.." && pwd)"
export VERIF_DIR="$VERIF"
N="${1:-200}"; PROCS="${2:-30}"; shift 2 2>/dev/null || true
IDS="${*:-C01 C02 C03 C04 C05 C06 C07 C08 C09 C10 C11 C12 C13 C15 C17 C18 C19 C20}"
"$VERIF/build.sh" all || exit 2
OUT="$(mktemp -d "${TMPDIR:-/tmp}/visim-det.XXXXXX")"
trap 'rm -rf "$OUT"' EXIT
rc=0
for id in $IDS; do
  n=$N
  case $id in C12) n=$((N/20+2));; C13|C15) n=$((N/4+2));; esac
  for p in $(seq 1 $PROCS); do
    case $((p % 3)) in 0) gmp=1; w=1;; 1) gmp=4; w=4;; 2) gmp=16; w=16;; esac
    if [ $((p % 5)) -eq 0 ]; then w=1; fi
    ( GOMAXPROCS=$gmp "$VERIF/bin/visim" hashes $id --runs $n --seed ${VERIF_SEED:-1} --workers $w > "$OUT/$id.$p" 2>"$OUT/$id.$p.err" ) &
    if [ $((p % 8)) -eq 0 ]; then wait; fi
  done
  wait
  ref="$OUT/$id.1"
  bad=0
  for p in $(seq 2 $PROCS); do
    if ! cmp -s "$ref" "$OUT/$id.$p"; then bad=$((bad+1)); diff "$ref" "$OUT/$id.$p" | head -5; fi
  done
  lines=$(wc -l < "$ref")
  if [ $bad -eq 0 ] && [ "$lines" -ge 1 ]; then echo "determinism $id: OK ($lines runs x $PROCS processes identical)"; else echo "determinism $id: MISMATCH in $bad processes"; rc=2; fi
done
exit $rc
