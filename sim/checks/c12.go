package checks

import (
	"bytes"
	"context"
	"fmt"
	"sort"
	"strings"

	"git.defalsify.org/vise.git/db"
	memdb "git.defalsify.org/vise.git/db/mem"

	"visim/app"
	"visim/core"
	"visim/simfs"
	"visim/world"
)

func init() {
	core.Register(&core.Check{
		ID:    "C12",
		Level: "fault_enumeration",
		Rule: "one run = one generated application + history over 1..3 persisted sessions on the real db/fs (text or binary-key) over the simulated disk; for EVERY request the disk is snapshotted and the request is re-executed once per crash point: before every file-system micro-step (create, truncate, write, close, rename, remove, sync) and after every byte offset of every write (all offsets up to 384 bytes per write, beyond that the first 128, the last 128 and every 5th in between); " +
			"after each crash the session record must equal a record that was complete before or after the interrupted save, other sessions' records must be untouched, and a fresh engine on the crashed disk must answer the next input like a twin continuing from the old or from the new record; " +
			"non-trivial = at least one save that replaced an existing record was crashed at >= 20 points; distinct = distinct (old record hash, new record hash) pairs",
		Runs:       map[string]int{"quick": 150, "thorough": 4000},
		MaxSeconds: map[string]int{"quick": 45, "thorough": 900},
		Run:        runC12,
		Assumptions: []string{
			"crash model = process death (as the property states): every completed file-system call survives, an in-flight write keeps a prefix; loss of un-synced data (power failure) is stricter than the property and is not modelled",
			"ioutil.WriteFile is modelled as the standard library implements it: open(create|truncate), write, close",
			"external functions are application state outside the crashed process: their call counters keep the value they had at the crash",
			"crash points are placed at every file-system call the real db/fs code makes; kinds it does not make on the current tree (truncate, remove, sync since writes go through temp file + rename) are listed with 0 and fire as soon as the code starts making such calls",
		},
		Real:        append(append([]string{}, realAll...), "db/fs (compiled against the simulated os)"),
		Stub:        append(append([]string{}, stubAll...), "OS filesystem (simfs)"),
		HangSeconds: 120, // single runs of this check take seconds, more on a loaded machine
		FaultKinds:  []string{"fs_crash_point:create", "fs_crash_point:truncate", "fs_crash_point:write", "fs_crash_point:close", "fs_crash_point:rename", "fs_crash_point:remove", "fs_crash_point:sync", "restart"},
		Post: func(cov map[string]interface{}) {
			cov["exhaustive_note"] = "per save: all micro-steps and the stated byte offsets are enumerated; histories are sampled"
		},
	})
}

type c12Sess struct {
	id    string
	calls map[string]int
}

func copyCalls(m map[string]int) map[string]int {
	n := map[string]int{}
	for k, v := range m {
		n[k] = v
	}
	return n
}

func callsKey(m map[string]int) string {
	var ks []string
	for k, v := range m {
		ks = append(ks, fmt.Sprintf("%s=%d", k, v))
	}
	sort.Strings(ks)
	return strings.Join(ks, ",")
}

// c12World builds a persisted world over the given disk.
func c12World(a *app.App, cfg world.Cfg, disk *simfs.FS, ids []string, calls map[string]map[string]int) (*world.World, map[string]*world.Sess) {
	w := world.New(a, cfg)
	w.Disk = disk
	w.UseFs(cfg.Backend == world.BackFsBin)
	inner := w.NewStore
	w.NewStore = func(s *world.Sess) (db.Db, error) {
		st, err := inner(s)
		if err != nil {
			return nil, err
		}
		return &world.MarkDb{Db: st, Disk: disk}, nil
	}
	m := map[string]*world.Sess{}
	for _, id := range ids {
		s := w.NewSession(id, true)
		if c, ok := calls[id]; ok {
			s.Calls = copyCalls(c)
		}
		m[id] = s
	}
	return w, m
}

type saveWindow struct {
	beginStep int // steps completed before the Put started
	endStep   int // steps completed when the Put returned
	key       string
}

func stateFiles(d *simfs.FS) map[string][]byte {
	m := map[string][]byte{}
	for p, b := range d.Files() {
		if strings.HasPrefix(p, "/state/") {
			m[p] = b
		}
	}
	return m
}

func runC12(c *core.Ctx) *core.Outcome {
	t := c.T
	o := core.NewOutcome()
	cfg := genCfg(t)
	cfg.Backend = []int{world.BackFs, world.BackFsBin}[t.Weighted(3, 1)]
	cfg.SetSession = t.Chance(1, 2)
	cfg.FinishAlways = t.Chance(1, 3)
	p := fullProfile(t, cfg.FlagCount)
	p.BigValues = false
	p.HugePages = t.Chance(1, 15) // symbols that fill a 65535-byte limit: session records of more than 64 KiB
	a := app.Generate(t, p)
	if err := a.Validate(); err != nil {
		panic("generator produced ill-formed app: " + err.Error())
	}
	bigRun := t.Chance(1, 8)
	if bigRun {
		// session records of more than 64 KiB (two symbols of tens of kilobytes each)
		a = bigRecordApp(t)
		cfg.CacheSize = 0
		cfg.OutputSize = 0
		o.Probes["big_record_run"]++
	}
	nsess := t.Range(1, 3)
	if bigRun {
		nsess = 1
	}
	ids := []string{"s1", "s2", "sess3"}[:nsess]
	disk := simfs.New()
	defer disk.Unmount()
	w, sess := c12World(a, cfg, disk, ids, nil)
	nreq := t.Range(1, 8)
	if bigRun {
		nreq = t.Range(3, 6)
	}
	var trace []string
	replaced := 0
	var allDisks []*simfs.FS
	defer func() {
		for _, d := range allDisks {
			d.Unmount()
		}
	}()
	newDisk := func(from *simfs.FS) *simfs.FS {
		d := from.Clone()
		allDisks = append(allDisks, d)
		return d
	}
	fail := func(class string, step int, format string, args ...interface{}) *core.Outcome {
		o.Fail(class, step, nil, format, args...)
		o.Scenario = scenario(w, map[string]interface{}{"trace": trace})
		return finish(o, w)
	}
	// one run in 5 on the text-key store: the records are found under their legacy names (the file name
	// without the type character, which reads fall back to) - a store carried over from an older release
	legacy := cfg.Backend == world.BackFs && t.Chance(1, 5)
	if legacy {
		o.Probes["run_with_records_under_legacy_names"]++
	}
	for i := 0; i < nreq; i++ {
		if legacy && i > 0 {
			files := stateFiles(disk)
			var names []string
			for p := range files {
				names = append(names, p)
			}
			sort.Strings(names)
			for _, p := range names {
				b := files[p]
				base := p[strings.LastIndex(p, "/")+1:]
				if len(base) < 2 || base[0] != '@' {
					continue // only records under their primary name (type character of the state type) are moved
				}
				disk.RemoveFile(p)
				disk.SetFile(p[:len(p)-len(base)]+base[1:], b)
				o.Probes["record_moved_to_legacy_name"]++
			}
		}
		t.Begin("request")
		sid := ids[t.Int(nsess)]
		s := sess[sid]
		var in []byte
		if len(s.Steps) > 0 {
			cur := ""
			if pp, _ := s.Position(); len(pp) > 0 {
				cur = pp[len(pp)-1]
			}
			in = genInput(t, a, cur, 1)
			if bigRun && t.Chance(3, 4) {
				in = []byte("1")
			}
		}
		nextIn := []byte([]string{"1", "0", "x", "11"}[t.Int(4)])
		t.End()
		// 1. snapshot
		d0 := newDisk(disk)
		calls0 := map[string]map[string]int{}
		for id, ss := range sess {
			calls0[id] = copyCalls(ss.Calls)
		}
		files0 := stateFiles(disk)
		// 2. the request, uncrashed, with the micro-step log
		disk.ResetLog()
		disk.Record = true
		st := s.Request(in, true)
		disk.Record = false
		log := append([]simfs.StepInfo(nil), disk.Log...)
		trace = append(trace, fmt.Sprintf("%s <- %q: cont=%v err=%q out=%s", sid, in, st.Cont, st.ExecErr, short(st.Out)))
		o.Counts["requests"]++
		if st.Panic != "" {
			o.Probes["foreign_panic"]++
			break
		}
		files1 := stateFiles(disk)
		for _, b := range files1 {
			if len(b) > 65536 {
				o.Probes["saved_record_over_64KiB"]++
				break
			}
		}
		// save windows and the stable records of this session at their boundaries
		var wins []saveWindow
		var cur *saveWindow
		nsteps := 0
		for _, e := range log {
			switch e.Kind {
			case "put-begin":
				cur = &saveWindow{beginStep: e.Len, key: e.Path}
			case "put-end":
				if cur != nil {
					cur.endStep = e.Len
					wins = append(wins, *cur)
					cur = nil
				}
			default:
				nsteps++
			}
		}
		if len(wins) == 0 {
			continue
		}
		// stable contents of the whole state directory at every save boundary, by replaying the
		// uncrashed request on clones stopped right at the boundary (crash "before step b+1")
		stable := []map[string][]byte{files0}
		for wi := range wins {
			if wi == len(wins)-1 {
				stable = append(stable, files1)
				break
			}
			dc := newDisk(d0)
			_, cs := c12World(a, cfg, dc, ids, calls0)
			dc.ResetLog()
			dc.Arm(wins[wi].endStep+1, 0)
			crashRun(cs[sid], in)
			stable = append(stable, stateFiles(dc))
		}
		// 3. crash points
		type point struct{ step, off int }
		var pts []point
		renamed, written := "", ""
		stepIdx := 0
		for _, e := range log {
			if e.Kind == "put-begin" || e.Kind == "put-end" {
				continue
			}
			stepIdx++
			pts = append(pts, point{stepIdx, 0})
			if e.Kind == "write" && e.Len > 1 {
				for _, off := range crashOffsets(e.Len) {
					pts = append(pts, point{stepIdx, off})
				}
			}
			o.Faults["fs_crash_point:"+e.Kind]++
			switch e.Kind {
			case "rename":
				renamed = e.Path
			case "write", "create", "truncate":
				written = e.Path
			}
		}
		oldExisted := false
		// the record being saved: what the save renames into place, else what it writes (named by the file
		// system calls, not by comparing bytes - a save of unchanged content may or may not produce the same
		// bytes, the encoder writes Go maps in iteration order)
		recName := renamed
		if recName == "" {
			recName = written
		}
		if _, ok := files1[recName]; !ok {
			recName = ""
		}
		if recName != "" {
			_, oldExisted = files0[recName]
		}
		if oldExisted && len(pts) >= 20 {
			replaced++
		}
		// the record as decoded: its bytes depend on the iteration order of Go maps in the encoder
		o.States = append(o.States, h64(recordKey(files0[recName]), recordKey(files1[recName])))

		type contRes struct {
			st    *world.Step
			files map[string][]byte
			lost  string // a complete record that the listing of the directory does not yield
		}
		contCache := map[string]*contRes{}
		cont := func(files map[string][]byte, calls map[string]int, tag string) *contRes {
			key := tag + "|" + callsKey(calls)
			if r, ok := contCache[key]; ok {
				return r
			}
			dn := simfs.New()
			allDisks = append(allDisks, dn)
			simfs.MkdirAll(dn.Root()+"/state", 0700)
			for name, b := range files {
				dn.SetFile(name, b)
			}
			cc := map[string]map[string]int{sid: calls}
			w2, cs := c12World(a, cfg, dn, ids, cc)
			// a later start that finds its sessions through the store's listing: whatever else lies in the
			// directory (temporary files of writers that died), every complete record is listed
			lost := ""
			if h, err := w2.NewStore(cs[sid]); err == nil {
				h.SetPrefix(db.DATATYPE_STATE)
				listed := map[string]bool{}
				world.Guard(func() {
					d, err := h.Dump(context.Background(), []byte{})
					if err != nil {
						return
					}
					for k := 0; k < 1000; k++ {
						kk, _ := d.Next(context.Background())
						if kk == nil {
							break
						}
						listed[string(kk)] = true
					}
					d.Close()
				})
				for _, id := range ids {
					want := id
					if cfg.SetSession {
						want = id + "." + id
					}
					has := false
					for name := range files {
						base := name[strings.LastIndex(name, "/")+1:]
						if len(base) > 1 && base[1:] == want && !strings.HasPrefix(base, ".") {
							has = true
						}
					}
					if has && !listed[want] && cfg.Backend == world.BackFs {
						lost = fmt.Sprintf("record of session %s (key %q) is in the directory but the listing of the state records yields %v", id, want, sortedBoolKeys(listed))
					}
				}
			}
			r := &contRes{st: cs[sid].Request(nextIn, true), files: stateFiles(dn), lost: lost}
			contCache[key] = r
			return r
		}
		if recName != "" && st.Panic == "" {
			// the complete record itself: a fresh engine over this disk continues the session exactly as a
			// fresh engine that is handed the same record bytes by the memory backend. (The crash points below
			// compare fs with fs; a record that the file-system backend cannot read back whole - and that the
			// engine therefore answers by silently starting over - is the same on both sides there.)
			fsR := cont(files1, copyCalls(s.Calls), "uncrashed")
			wm := world.New(a, cfg)
			mstore := memdb.NewMemDb()
			mstore.Connect(context.Background(), "")
			mstore.SetPrefix(db.DATATYPE_STATE)
			if cfg.SetSession {
				mstore.SetSession(sid)
			}
			if err := mstore.Put(context.Background(), []byte(sid), files1[recName]); err == nil {
				wm.NewStore = func(*world.Sess) (db.Db, error) { return mstore, nil }
				sm := wm.NewSession(sid, true)
				sm.Calls = copyCalls(s.Calls)
				memR := sm.Request(nextIn, true)
				o.Probes["record_continued_from_memory_twin"]++
				if stepSig(memR) != stepSig(fsR.st) {
					return fail("record-not-continued", i, "request %d (%s <- %q) saved a complete record %s of %d bytes; a fresh engine over the disk answers %q with (cont=%v err=%q out=%s), a fresh engine handed the same bytes by the memory backend with (cont=%v err=%q out=%s)",
						i, sid, in, recName, len(files1[recName]), nextIn, fsR.st.Cont, fsR.st.ExecErr, short(fsR.st.Out), memR.Cont, memR.ExecErr, short(memR.Out))
				}
			}
		}
		for _, pt := range pts {
			dc := newDisk(d0)
			_, cs := c12World(a, cfg, dc, ids, calls0)
			dc.ResetLog()
			dc.Arm(pt.step, pt.off)
			crashed := crashRun(cs[sid], in)
			o.Counts["crash_points"]++
			if !crashed {
				// the request took a different path than the recorded one: nondeterminism in the harness
				panic(fmt.Sprintf("crash point %v not reached when re-executing request %d", pt, i))
			}
			o.Faults["restart"]++
			after := stateFiles(dc)
			// which save was interrupted
			wi := -1
			for k, wn := range wins {
				if pt.step > wn.beginStep && pt.step <= wn.endStep {
					wi = k
				}
			}
			var allowed []map[string][]byte
			switch {
			case wi >= 0:
				allowed = []map[string][]byte{stable[wi], stable[wi+1]}
			default:
				// between saves: exactly the boundary contents
				b := 0
				for k, wn := range wins {
					if pt.step > wn.endStep {
						b = k + 1
					}
				}
				allowed = []map[string][]byte{stable[b]}
			}
			desc := fmt.Sprintf("request %d (%s <- %q) crashed before micro-step %d after %d bytes", i, sid, in, pt.step, pt.off)
			if pt.step-1 < len(log) {
				n := 0
				for _, e := range log {
					if e.Kind == "put-begin" || e.Kind == "put-end" {
						continue
					}
					n++
					if n == pt.step {
						desc += fmt.Sprintf(" [%s %s len=%d]", e.Kind, e.Path, e.Len)
					}
				}
			}
			// (2) other sessions untouched, (1) this session's record old or new
			names := map[string]bool{}
			for n := range after {
				names[n] = true
			}
			for _, al := range allowed {
				for n := range al {
					names[n] = true
				}
			}
			var strays []string
			for _, name := range sortedBoolKeys(names) {
				got, have := after[name]
				okAny := false
				known := false
				for _, al := range allowed {
					want, w := al[name]
					if w {
						known = true
					}
					if w == have && bytes.Equal(want, got) {
						okAny = true
					}
				}
				if !known {
					if _, k0 := files0[name]; !k0 {
						if _, k1 := files1[name]; !k1 {
							strays = append(strays, name)
							continue
						}
					}
				}
				if !okAny {
					if name != recName && recName != "" {
						return fail("other-record-changed", i, "%s: file %s (not the record being saved) changed: %d bytes", desc, name, len(got))
					}
					var lens []string
					for _, al := range allowed {
						if b, ok := al[name]; ok {
							lens = append(lens, fmt.Sprintf("%d bytes", len(b)))
						} else {
							lens = append(lens, "absent")
						}
					}
					state := fmt.Sprintf("%d bytes", len(got))
					if !have {
						state = "missing"
					} else if len(got) == 0 {
						state = "empty"
					}
					return fail("torn-record", i, "%s: the session record %s is %s; complete records around this save: %v", desc, name, state, lens)
				}
			}
			if len(strays) > 0 {
				o.Probes["crash_left_stray_files"]++
			}
			// (3) continuation
			crashCalls := copyCalls(cs[sid].Calls)
			gotR := cont(after, crashCalls, fmt.Sprintf("crash%d.%d", pt.step, pt.off))
			got := gotR.st
			if gotR.lost != "" {
				return fail("record-not-listed-after-crash", i, "%s: %s (strays: %v)", desc, gotR.lost, strays)
			}
			if got.Panic != "" {
				return fail("panic-after-crash", i, "%s: continuing on the crashed disk with input %q panicked in %s: %s", desc, nextIn, got.PanicAt, got.Panic)
			}
			match := false
			bytesMatch := false
			for ai, al := range allowed {
				expR := cont(al, crashCalls, fmt.Sprintf("stable%d", indexOf(stable, al, ai)))
				if stepSig(expR.st) == stepSig(got) {
					match = true
					// the record written by the NEXT save on the crashed disk (possibly over leftovers
					// of the interrupted one) must be the record a clean disk gets
					// (the byte ORDER of a snapshot is not stable - cbor encodes Go maps in iteration
					// order - so records are compared decoded and by length)
					if recName == "" || sameRecord(expR.files[recName], gotR.files[recName]) {
						bytesMatch = true
					}
				}
			}
			if !match {
				return fail("continuation-differs", i, "%s: a fresh engine on the crashed disk answers %q with (cont=%v err=%q out=%s), unlike a twin continuing from the old or the new record (strays: %v)", desc, nextIn, got.Cont, got.ExecErr, short(got.Out), strays)
			}
			if !bytesMatch {
				return fail("mixed-record-after-recovery", i, "%s: the next save on the crashed disk (strays: %v) leaves a record of %d bytes that differs from the record the same save leaves on a clean disk", desc, strays, len(gotR.files[recName]))
			}
		}
		if !st.Cont || (st.ExecErr != "" && !st.Cont) {
			// the session ended; later requests start over, which is fine
		}
	}
	o.Nontrivial = replaced > 0
	if c.WantScenario {
		o.Scenario = scenario(w, map[string]interface{}{"trace": trace})
	}
	return finish(o, w)
}

func indexOf(stable []map[string][]byte, al map[string][]byte, fallback int) int {
	for i := range stable {
		if fmt.Sprintf("%p", stable[i]) == fmt.Sprintf("%p", al) {
			return i
		}
	}
	return 100 + fallback
}

func sortedBoolKeys(m map[string]bool) []string {
	var l []string
	for k := range m {
		l = append(l, k)
	}
	sort.Strings(l)
	return l
}

// crashRun serves the request and reports whether the armed crash was reached.
func crashRun(s *world.Sess, in []byte) (crashed bool) {
	defer func() {
		if r := recover(); r != nil {
			if _, ok := r.(simfs.Crash); ok {
				crashed = true
				return
			}
			panic(r)
		}
	}()
	st := s.Request(in, true)
	if st.Panic != "" && strings.Contains(st.Panic, "simfs") {
		return true
	}
	return s.W.Disk.Dead()
}

// sameRecord compares two session records decoded and by length (trailing or missing bytes show as a
// different length even where the decoder tolerates them).
func sameRecord(a, b []byte) bool {
	if len(a) != len(b) {
		return false
	}
	if len(a) == 0 {
		return true
	}
	sa, ca, pa, _, ea := restore(a)
	sb, cb, pb, _, eb := restore(b)
	if pa != "" || pb != "" || (ea != nil) != (eb != nil) {
		return false
	}
	if ea != nil {
		return bytes.Equal(a, b)
	}
	return snapKey(sa, ca) == snapKey(sb, cb)
}

// recordKey is a canonical rendering of a stored session record (for the distinct-states measure).
func recordKey(b []byte) string {
	if len(b) == 0 {
		return "<none>"
	}
	st, ca, pm, _, err := restore(b)
	if pm != "" || err != nil {
		return fmt.Sprintf("<undecodable %d bytes>", len(b))
	}
	return snapKey(st, ca)
}

// crashOffsets lists the byte offsets inside a write of n bytes at which the process is made to die:
// every offset of a short write; the first and last 128 and every fifth in between of a longer one; for
// a write of more than 4 KiB the first and last 64, the offsets around every 4 KiB boundary and around
// 64 KiB, and the middle.
func crashOffsets(n int) []int {
	var r []int
	if n <= 4096 {
		for off := 1; off < n; off++ {
			if n > 384 && off > 128 && off < n-128 && off%5 != 0 {
				continue
			}
			r = append(r, off)
		}
		return r
	}
	set := map[int]bool{}
	add := func(off int) {
		if off >= 1 && off < n {
			set[off] = true
		}
	}
	for k := 1; k <= 64; k++ {
		add(k)
		add(n - k)
	}
	for b := 4096; b < n; b += 4096 {
		add(b - 1)
		add(b)
		add(b + 1)
	}
	for _, b := range []int{65535, 65536, 65537, n / 2} {
		add(b)
	}
	for off := range set {
		r = append(r, off)
	}
	sort.Ints(r)
	return r
}
