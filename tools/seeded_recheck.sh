#!/bin/bash
# Re-runs the stored sub-agent changes (seeded/<name>/patch.diff) against the CURRENT /repo and
# the CURRENT checks, and records the outcome in seeded/<name>/meta.json ("recheck").
# usage: seeded_recheck.sh [name...]        (default: all)
set -u
VERIF="$(cd "$(dirname "$0")/.." && pwd)"
cd "$VERIF/seeded" || exit 2
NAMES="$*"; [ -n "$NAMES" ] || NAMES="$(ls)"
for n in $NAMES; do
  [ -f "$n/meta.json" ] || continue
  ids="$(python3 - "$n/meta.json" <<'PY'
import json,sys,re
d=json.load(open(sys.argv[1]))
ids=[]
for l in d.get("checks_result",[])+d.get("recheck",{}).get("lines",[]):
    if l.startswith("RESULT"):
        for m in re.finditer(r"(C\d\d):",l):
            if m.group(1) not in ids: ids.append(m.group(1))
p=d.get("breaks_property")
if p and p not in ids: ids.insert(0,p)
for x in d.get("also_check",[]):
    if x not in ids: ids.append(x)
print(" ".join(ids))
PY
)"
  out="$("$VERIF/tools/mutant.sh" "$n/patch.diff" $ids 2>&1)"
  res="$(echo "$out" | grep '^RESULT\|DOES NOT APPLY' | tail -1)"
  echo "$n: $res"
  python3 - "$n/meta.json" "$res" "$(git -C /repo rev-parse --short HEAD)" "$(git -C "$VERIF" rev-parse --short HEAD)" <<'PY'
import json,sys
p,res,rh,vh=sys.argv[1:5]
d=json.load(open(p))
d["recheck"]={"repo_head":rh,"verif_head":vh,"lines":[res],"caught":"CAUGHT" in res}
json.dump(d,open(p,"w"),indent=1)
PY
done
