package examples
import ("testing";"fmt")
func TestLoad(t *testing.T){ for _, l := range All() { fmt.Println(l.Name, l.FlagCount, len(l.App.Nodes), len(l.App.Ext)) } }
