package world

import (
	"context"
	"fmt"
	"os"
	"path/filepath"
	"sort"
	"strings"

	"git.defalsify.org/vise.git/resource"

	"visim/app"
)

// PoDefaultLanguage is the language the default entries of an application stand for when it is
// served through the library's gettext resource.
const PoDefaultLanguage = "eng"

func poQuote(s string) string {
	r := strings.NewReplacer("\\", "\\\\", "\"", "\\\"", "\n", "\\n", "\t", "\\t", "\r", "\\r")
	return "\"" + r.Replace(s) + "\""
}

func writePo(path string, entries map[string]string) error {
	var sb strings.Builder
	sb.WriteString("msgid \"\"\nmsgstr \"\"\n\"Content-Type: text/plain; charset=UTF-8\\n\"\n\n")
	keys := make([]string, 0, len(entries))
	for k := range entries {
		keys = append(keys, k)
	}
	sort.Strings(keys)
	for _, k := range keys {
		if k == "" {
			continue
		}
		fmt.Fprintf(&sb, "msgid %s\nmsgstr %s\n\n", poQuote(k), poQuote(entries[k]))
	}
	if err := os.MkdirAll(filepath.Dir(path), 0700); err != nil {
		return err
	}
	return os.WriteFile(path, []byte(sb.String()), 0600)
}

// UsePoResource serves templates and menu labels of the application through the library's
// gettext resource (resource.PoResource) from .po files written to a scratch directory on the
// real file system (the gettext library reads them itself; the directory is removed by Close).
// Default entries become the entries of PoDefaultLanguage, translations are keyed by the default
// text, as gettext does. Code and external functions come from the harness as usual.
func (w *World) UsePoResource() error {
	for _, e := range w.App.Ext {
		if e.Static != nil {
			return fmt.Errorf("static-load symbols are not served by the gettext resource")
		}
	}
	dir, err := os.MkdirTemp("", "visim-po-")
	if err != nil {
		return err
	}
	w.scratchDirs = append(w.scratchDirs, dir)
	tplKey, menuKey := map[string]string{}, map[string]string{}
	perLang := map[string]map[string]string{}
	add := func(lg, msgid, msgstr string) {
		if perLang[lg] == nil {
			perLang[lg] = map[string]string{}
		}
		perLang[lg][msgid] = msgstr
	}
	for _, n := range w.App.Nodes {
		def, ok := n.Tpl[""]
		if !ok {
			continue
		}
		tplKey[n.Name] = def
		for lg, txt := range n.Tpl {
			if lg != "" {
				add(lg, def, txt)
			}
		}
	}
	for label, m := range w.App.Labels {
		def, ok := m[""]
		if !ok {
			def = label // a label without a default entry resolves to itself
		} else {
			menuKey[label] = def
		}
		for lg, txt := range m {
			if lg != "" {
				add(lg, def, txt)
			}
		}
	}
	if err := writePo(filepath.Join(dir, PoDefaultLanguage, "x-vise.po"), tplKey); err != nil {
		return err
	}
	if err := writePo(filepath.Join(dir, PoDefaultLanguage, "x-vise_menu.po"), menuKey); err != nil {
		return err
	}
	var langs []string
	for lg, m := range perLang {
		if err := writePo(filepath.Join(dir, lg, "default.po"), m); err != nil {
			return err
		}
		langs = append(langs, lg)
	}
	sort.Strings(langs)
	defLang, err := langFor(PoDefaultLanguage)
	if err != nil {
		return err
	}
	w.ResFor = func(s *Sess) resource.Resource {
		rs := resource.NewPoResource(defLang, dir)
		for _, lg := range langs {
			if l, err := langFor(lg); err == nil {
				rs = rs.WithLanguage(l)
			}
		}
		rs.WithCodeGetter(s.Res.GetCode)
		for _, e := range w.App.Ext {
			e := e
			rs.AddLocalFunc(e.Name, func(ctx context.Context, nodeSym string, input []byte) (resource.Result, error) {
				if s.cur != nil {
					s.cur.Funcs++
				}
				return s.callExt(ctx, e, nodeSym, input)
			})
		}
		return rs
	}
	return nil
}

// SharedPoResource builds ONE gettext resource over the application's generated .po files for several
// sessions (of several worlds) at once - templates and labels are immutable application data, which a
// gateway loads once. Only the languages for which register says so get their catalogue loaded up front;
// a session in another language is served the default texts. Code lookups and external functions are
// dispatched on the session id the engine puts on the context. The caller removes dir.
func SharedPoResource(a *app.App, sessions map[string]*Sess, register func(lg string) bool) (rs *resource.PoResource, dir string, err error) {
	w := New(a, Cfg{})
	if err := w.UsePoResource(); err != nil {
		return nil, "", err
	}
	dir = w.scratchDirs[len(w.scratchDirs)-1]
	w.scratchDirs = nil // the caller owns it now
	defLang, err := langFor(PoDefaultLanguage)
	if err != nil {
		return nil, dir, err
	}
	rs = resource.NewPoResource(defLang, dir)
	for _, lg := range a.Langs {
		if register(lg) {
			if l, err := langFor(lg); err == nil {
				rs = rs.WithLanguage(l)
			}
		}
	}
	of := func(ctx context.Context) *Sess {
		id, _ := ctx.Value("SessionId").(string)
		return sessions[id]
	}
	rs.WithCodeGetter(func(ctx context.Context, sym string) ([]byte, error) {
		s := of(ctx)
		if s == nil {
			return nil, fmt.Errorf("harness: code lookup without a known session on the context")
		}
		return s.Res.GetCode(ctx, sym)
	})
	for _, e := range a.Ext {
		e := e
		rs.AddLocalFunc(e.Name, func(ctx context.Context, nodeSym string, input []byte) (resource.Result, error) {
			s := of(ctx)
			if s == nil {
				return resource.Result{}, fmt.Errorf("harness: external call without a known session on the context")
			}
			if s.cur != nil {
				s.cur.Funcs++
			}
			return s.callExt(ctx, e, nodeSym, input)
		})
	}
	return rs, dir, nil
}
