package checks

import (
	"strings"

	"visim/app"
	"visim/core"
	"visim/world"
)

func init() {
	core.Register(&core.Check{
		ID:    "C03",
		Level: "exploration",
		Rule: "one run = one generated application with rich INCMP blocks (0..8 lines in any order, duplicate selectors, wildcard anywhere, relative targets, mostly distinct named targets) + an input history drawn from the node's own selectors, near-misses, free text and garbage, with restarts at request boundaries in half of the runs and failing external calls; " +
			"the moves of every request (one code fetch per successful move, with the resulting node) must be exactly the reference model's routing decision; non-trivial = at least one request where the input matched a non-first INCMP line, a duplicate or a wildcard that is not last, or matched nothing; distinct = distinct sequences of (node, input class, moves)",
		Runs:       map[string]int{"quick": 80000, "thorough": 5000000},
		MaxSeconds: map[string]int{"quick": 40, "thorough": 900},
		Run:        runC03,
		Assumptions: []string{
			"the reference model follows doc/texinfo/instructions.texi (INCMP) and the property text; after a request the model cannot judge (execution error, LOAD over its limit) the session is compared no further",
			"a 'previous' request on the first page counts as no match for the whole request (the session goes to the catch node), as the code deliberately implements; whether later INCMP lines could still match is not demanded either way by the text",
		},
		Real:       realAll,
		Stub:       append(append([]string{}, stubAll...), "reference model refvm (oracle)"),
		FaultKinds: []string{"restart", "ext_error", "client_garbage"},
	})
}

func c03Profile(flagCount uint32) app.Profile {
	return app.Profile{
		MaxNodes: 6, MaxExt: 3, FlagCount: flagCount,
		Sinks: true, Menus: true, Browse: true,
		ExtErrPct: 8, EmptyPct: 3,
		DupSelectors: true, WildAnywhere: true, RelTargets: true,
		MaxRows: 8, CatchShape: -1,
	}
}

func runC03(c *core.Ctx) *core.Outcome {
	t := c.T
	o := core.NewOutcome()
	cfg := genCfg(t)
	cfg.Backend = world.BackMem
	cfg.CacheSize = 0
	cfg.FinishAlways = true // keep the stored session in step with the model when a render is refused
	prof := c03Profile(cfg.FlagCount)
	prof.PreludeIncmp = t.Chance(1, 4)
	prof.LongMenus = t.Chance(1, 3) // menus of 14-30 lines and more
	cfg.Debug = t.Chance(1, 4)      // an attached debugger looks, it does not touch
	a := app.Generate(t, prof)
	if err := a.Validate(); err != nil {
		panic("generator produced ill-formed app: " + err.Error())
	}
	persisted := t.Chance(1, 2)
	r := newModelRun(a, cfg, persisted)
	defer r.w.Close()
	nreq := t.Range(2, 12)
	interesting := 0
	for i := 0; i < nreq; i++ {
		t.Begin("request")
		var in []byte
		cur := r.curNode()
		if i > 0 {
			in = genInput(t, a, cur, 2)
		}
		t.End()
		ob := r.request(in, persisted)
		o.Counts["requests"]++
		if persisted && i > 0 {
			o.Faults["restart"]++
		}
		if ob.panic {
			// a panic raised by a second move of the same input is this property's business
			if strings.Contains(ob.st.PanicAt, "Down") && strings.Contains(ob.st.Panic, "same node") {
				return finishModel(o, c, r).Fail("double-move", i, map[string]string{"how": "panic"}, "request %d input %s at node %s: the input caused a second move into the node just entered (panic: %s)", i, short(string(in)), cur, ob.st.Panic)
			}
			o.Probes["foreign_panic"]++
			break
		}
		if ob.refused {
			o.Faults["client_garbage"]++
			continue
		}
		if ob.exp.Skip {
			o.Counts["out_of_envelope"]++
			break
		}
		for _, cl := range ob.exp.Calls {
			if cl.Err {
				o.Faults["ext_error"]++
			}
		}
		// classify the request for the coverage measure
		cls := "plain"
		if n := a.Node(cur); n != nil && i > 0 {
			sels := n.Selectors()
			first := -1
			cnt := 0
			for k, s := range sels {
				if s == string(in) || s == "*" {
					if first < 0 {
						first = k
					}
					cnt++
				}
			}
			switch {
			case len(sels) > 0 && first < 0:
				cls = "nomatch"
			case cnt > 1:
				cls = "several-candidates"
			case first > 0:
				cls = "non-first"
			}
			if cls != "plain" {
				interesting++
				o.Probes["routing_"+cls]++
			}
		}
		o.States = append(o.States, h64(cur, cls, strings.Join(ob.st.Moves, ",")))
		if !ob.browseOOR && !ob.movesAgree {
			class := "wrong-routing"
			if len(ob.st.Moves) > len(ob.exp.Moves) && strings.Join(ob.st.Moves[:len(ob.exp.Moves)], ",") == strings.Join(ob.exp.Moves, ",") {
				class = "double-move"
			}
			return finishModel(o, c, r).Fail(class, i, map[string]string{"how": "moves"}, "request %d input %s at node %s: moves %v, the first matching INCMP decides %v (model: %s; exec error %q)", i, short(string(in)), cur, ob.st.Moves, ob.exp.Moves, describeExp(ob.exp), ob.st.ExecErr)
		}
		if ob.exp.NoMatch && !ob.exp.ExecErr {
			if top := last(ob.actPath); top != "_catch" {
				return finishModel(o, c, r).Fail("nomatch-not-on-catch", i, nil, "request %d input %s matched no INCMP at node %s but the session is on %q, not on the catch node", i, short(string(in)), cur, top)
			}
			if ob.st.FlushErr == "" && !strings.Contains(ob.page.Prefix, string(in)) {
				return finishModel(o, c, r).Fail("nomatch-message", i, nil, "request %d input %s matched no INCMP at node %s; the page %s does not show that input in an invalid-input message", i, short(string(in)), cur, short(ob.st.Out))
			}
			o.Probes["nomatch_page_checked"]++
		}
		if ob.exp.ExecErr || !ob.exp.Cont || ob.st.ExecErr != "" || !ob.st.Cont {
			break
		}
	}
	o.Nontrivial = interesting > 0
	return finishModel(o, c, r)
}

func last(p []string) string {
	if len(p) == 0 {
		return ""
	}
	return p[len(p)-1]
}

func finishModel(o *core.Outcome, c *core.Ctx, r *modelRun) *core.Outcome {
	for k, v := range r.m.Stats {
		o.Probes["model_"+k] += v
	}
	if c.WantScenario || o.V != nil {
		o.Scenario = scenario(r.w, nil)
	}
	return finish(o, r.w)
}
