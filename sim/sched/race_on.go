//go:build race

package sched

import "runtime"

// Race reports whether the binary was built with the race detector.
const Race = true

func raceOff() { runtime.RaceDisable() }
func raceOn()  { runtime.RaceEnable() }
