package checks

import (
	"bytes"
	"context"
	"errors"
	"fmt"
	"strings"
	"syscall"

	"git.defalsify.org/vise.git/db"

	"visim/core"
	"visim/world"
)

func init() {
	core.Register(&core.Check{
		ID:    "C10",
		Level: "exploration",
		Rule: "one run = one seeded history of up to 40 store operations (SetPrefix/SetSession/SetLanguage (sticky or via context)/SetLock/seal/Put/Get, Dump on the filesystem, reopen) applied in lock-step to the memory, filesystem (text and binary-key) and Postgres-on-fake backends through two handles per medium with independent sticky context, and to a reference map; " +
			"non-trivial = at least one read that returned a written value and at least one of: translated read (hit or fallback), refused locked write, overwrite; distinct = distinct operation sequences",
		Runs:       map[string]int{"quick": 150000, "thorough": 8000000},
		MaxSeconds: map[string]int{"quick": 40, "thorough": 900},
		Run:        runC10,
		Assumptions: []string{
			"the simulated file system enforces NAME_MAX = 255 bytes per file name; the 252-byte key of the pool is not offered to the binary-key filesystem backend, whose encoded name for it is longer than that (keys a backend does not accept are outside the property)",
			"keys follow the documented symbol grammar and do not end in a language suffix; session ids are dot-free; values are non-nil",
			"a Put that returns an error although the type is not locked is counted (probe) and treated as not written; the backends must still agree with each other",
			"Postgres is the in-process fake server (pgfake), not a real server; Dump is checked on the filesystem backend only",
		},
		Real:       []string{"db", "db/mem", "db/fs (compiled against the simulated os)", "db/postgres", "lang"},
		Stub:       []string{"store client (seeded operation generator)", "OS filesystem (simfs)", "Postgres server (pgfake)"},
		FaultKinds: []string{"fs_write_enospc", "caller_buffer_reuse", "close_in_use", "reopen", "lookup_miss"},
	})
}

var c10Keys = []string{"foo", "foobar", "Zed9", "bar", "fo", "a_b", "x1", "wa", "ta", "w1", c10LongKey}

// a key every backend accepts whose translation file name (+ "_nor") is longer than a file name may be
var c10LongKey = "L" + strings.Repeat("k", 251)
var c10Sessions = []string{"inky", "", "a", "pinky", "b7"}
var c10Langs = []string{"", "nor", "swa"}

func runC10(c *core.Ctx) *core.Outcome {
	t := c.T
	o := core.NewOutcome()
	kinds := []int{world.BackMem, world.BackFs, world.BackFsBin, world.BackPg}
	var meds []*medium
	for _, k := range kinds {
		m := newMedium(k)
		defer m.close()
		n := 2
		if k == world.BackMem {
			n = 1
		}
		for i := 0; i < n; i++ {
			h, err := m.open()
			if err != nil {
				panic("cannot open backend " + m.name + ": " + err.Error())
			}
			m.handles = append(m.handles, h)
		}
		meds = append(meds, m)
	}
	ref := &refStore{m: map[string][]byte{}}
	ctxs := []refCtx{newRefCtx(), newRefCtx()}
	var trace []string
	memOff, memSealed := false, false
	var memSealLock uint8
	nops := t.Range(3, 40)
	reuseBuffers := t.Chance(1, 2)
	focusW := t.Chance(1, 8)
	valN := 0
	fellBack, lockedRefused, overwritten, readHits := 0, 0, 0, 0
	written := map[string]int{}
	fail := func(class string, step int, format string, a ...interface{}) *core.Outcome {
		o.Fail(class, step, nil, format, a...)
		o.Scenario = map[string]interface{}{"ops": trace}
		o.TraceHash = h64(strings.Join(trace, ";"))
		return o
	}
	for i := 0; i < nops; i++ {
		t.Begin("op")
		hi := t.Int(2)
		op := t.Weighted(3, 2, 2, 4, 10, 10, 2, 1, 1, 1)
		if i < 2 {
			op = 0
			hi = i
		}
		typ := []uint8{tTpl, tState, tUser, tBin, tMenu, tStatic}[t.Weighted(4, 4, 3, 2, 2, 1)]
		sid := c10Sessions[t.Weighted(4, 3, 2, 1, 1)]
		lg := c10Langs[t.Weighted(3, 3, 1)]
		key := c10Keys[t.Weighted(5, 4, 3, 1, 1, 1, 1, 2, 2, 2, 1)]
		if focusW {
			// keys with a common first byte whose encoded (binary-key) file names are not adjacent
			key = []string{"wa", "ta", "w1", "foo"}[t.Weighted(3, 3, 3, 1)]
		}
		ctxLg := ""
		if t.Chance(1, 4) {
			ctxLg = c10Langs[t.Int(len(c10Langs))]
		}
		lockOn := t.Chance(1, 3)
		seal := t.Chance(1, 10)
		if t.Chance(3, 4) && ctxs[hi].pfx != 0 {
			// most often: unlock the type currently selected on this handle
			if op == 3 {
				typ, lockOn, seal = ctxs[hi].pfx, false, false
			}
		}
		binVal := t.Chance(1, 4)
		emptyVal := t.Chance(1, 10)
		bigVal := t.Chance(1, 60) // a value around or well beyond 64 KiB (a saved session with large symbols is such a value)
		dumpPfx := []string{"", "f", "fo", "foo", "b", "zz", "w"}[t.Int(7)]
		if focusW && t.Chance(1, 2) {
			dumpPfx = "w"
		}
		t.End()
		rc := &ctxs[hi]
		hidx := func(m *medium) int {
			if hi < len(m.handles) {
				return hi
			}
			return 0
		}
		// the memory backend has a single handle (the handle is the storage): operations on
		// it are skipped here and its sticky context is synchronised right before Put/Get
		memSkip := func(m *medium) bool { return m.kind == world.BackMem }
		syncMem := func(m *medium) bool {
			if m.kind != world.BackMem {
				return true
			}
			if memOff {
				return false
			}
			mm := m.handles[0]
			mm.SetPrefix(rc.pfx)
			mm.SetSession(rc.sid)
			mm.SetLanguage(langPtr(rc.lang))
			if rc.sealed {
				if !memSealed {
					for _, ty := range []uint8{tState, tUser} {
						mm.SetLock(ty, rc.lock&ty != 0)
					}
					mm.SetLock(0, true)
					memSealed = true
					memSealLock = rc.lock
				}
				if memSealLock != rc.lock {
					memOff = true
					return false
				}
				return true
			}
			if memSealed {
				memOff = true
				return false
			}
			for _, ty := range allTypes {
				mm.SetLock(ty, rc.lock&ty != 0)
			}
			return true
		}
		switch op {
		case 0:
			trace = append(trace, fmt.Sprintf("h%d.SetPrefix(%s)", hi, typeNames[typ]))
			rc.pfx = typ
			for _, m := range meds {
				if memSkip(m) {
					continue
				}
				m.handles[hidx(m)].SetPrefix(typ)
			}
		case 1:
			trace = append(trace, fmt.Sprintf("h%d.SetSession(%q)", hi, sid))
			rc.sid = sid
			for _, m := range meds {
				if memSkip(m) {
					continue
				}
				m.handles[hidx(m)].SetSession(sid)
			}
		case 2:
			trace = append(trace, fmt.Sprintf("h%d.SetLanguage(%q)", hi, lg))
			rc.lang = lg
			for _, m := range meds {
				if memSkip(m) {
					continue
				}
				m.handles[hidx(m)].SetLanguage(langPtr(lg))
			}
		case 3:
			if seal {
				trace = append(trace, fmt.Sprintf("h%d.SetLock(0) [seal]", hi))
			} else {
				trace = append(trace, fmt.Sprintf("h%d.SetLock(%s,%v)", hi, typeNames[typ], lockOn))
			}
			wantErr := rc.sealed
			if !rc.sealed {
				if seal {
					rc.lock |= tBin | tMenu | tTpl | tStatic
					rc.sealed = true
				} else if lockOn {
					rc.lock |= typ
				} else {
					rc.lock &^= typ
				}
			}
			for _, m := range meds {
				if memSkip(m) {
					continue
				}
				var err error
				if seal {
					err = m.handles[hidx(m)].SetLock(0, true)
				} else {
					err = m.handles[hidx(m)].SetLock(typ, lockOn)
				}
				if wantErr && err == nil {
					return fail("seal-undone", i, "%s: SetLock on a sealed %s handle succeeded", trace[len(trace)-1], m.name)
				}
				if !wantErr && err != nil {
					return fail("setlock-refused", i, "%s: SetLock on an unsealed %s handle failed: %v", trace[len(trace)-1], m.name, err)
				}
			}
		case 4: // Put
			if rc.pfx == 0 {
				trace = append(trace, fmt.Sprintf("h%d.Put(%s) [no prefix]", hi, key))
				continue
			}
			valN++
			var val []byte
			switch {
			case emptyVal:
				val = []byte{}
			case bigVal:
				n := []int{65535, 65536, 65537, 70000, 131073, 300000}[valN%6]
				val = bytes.Repeat([]byte(fmt.Sprintf("V%d|", valN)), n/3+1)[:n]
				o.Probes["value_of_64KiB_or_more"]++
			case binVal:
				val = []byte{0, 0xff, byte(valN), 0x0a, 0x2e, byte(valN >> 8), 0x80}
			default:
				val = []byte(fmt.Sprintf("v%d-%s-%s", valN, typeNames[rc.pfx], key))
			}
			trace = append(trace, fmt.Sprintf("h%d.Put(%s,%s) ctxlang=%q [type=%s sid=%q lang=%q]", hi, key, shortVal(val), ctxLg, typeNames[rc.pfx], rc.sid, rc.lang))
			locked := rc.pfx&rc.lock != 0
			okCount, errCount := 0, 0
			var firstErr error
			for _, m := range meds {
				if !syncMem(m) {
					continue
				}
				if key == c10LongKey && m.kind == world.BackFsBin {
					continue // its encoded file name is longer than a file system accepts: not a key this backend accepts
				}
				kbuf, vbuf := []byte(key), append([]byte{}, val...)
				if reuseBuffers {
					// key and value are two parts of one record buffer (the key slice has the value behind it)
					rec := append(append(make([]byte, 0, len(key)+len(val)), key...), val...)
					kbuf, vbuf = rec[:len(key)], rec[len(key):]
				}
				err := m.handles[hidx(m)].Put(ctxWithLang(ctxLg), kbuf, vbuf)
				if reuseBuffers {
					// the caller reuses its buffers for something else once Put has returned
					for j := range vbuf {
						vbuf[j] = '#'
					}
					for j := range kbuf {
						kbuf[j] = '#'
					}
					o.Faults["caller_buffer_reuse"]++
				}
				if err != nil && errors.Is(err, syscall.ENAMETOOLONG) {
					// this backend does not accept the key in this context (type, session and language all go into the file name)
					if m.tooLong == nil {
						m.tooLong = map[string]bool{}
					}
					m.tooLong[refKey(rc.pfx, rc.sid, key, "")] = true
					o.Probes["write_refused_name_too_long"]++
					continue
				}
				if err != nil {
					errCount++
					if firstErr == nil {
						firstErr = fmt.Errorf("%s: %v", m.name, err)
					}
				} else {
					okCount++
					if locked {
						return fail("locked-write-accepted", i, "%s: %s accepted a write to a locked type", trace[len(trace)-1], m.name)
					}
				}
			}
			if locked {
				lockedRefused++
				continue
			}
			if okCount > 0 && errCount > 0 {
				return fail("backends-disagree-put", i, "%s: accepted by %d backends, refused by others (%v)", trace[len(trace)-1], okCount, firstErr)
			}
			if errCount > 0 {
				o.Probes["unexpected_put_error"]++
				continue
			}
			if hi == 0 || true {
				lgEff := rc.lang
				if lgEff == "" {
					lgEff = ctxLg
				}
				rk := refKey(rc.pfx, rc.sid, key, lgEff)
				written[rk]++
				if written[rk] > 1 {
					overwritten++
				}
				// mem mirrors handle 0 only: keep a separate model would be needed; instead mem is skipped when hi != 0
				ref.put(rc, ctxLg, key, val)
			}
		case 5: // Get
			if rc.pfx == 0 {
				trace = append(trace, fmt.Sprintf("h%d.Get(%s) [no prefix]", hi, key))
				continue
			}
			trace = append(trace, fmt.Sprintf("h%d.Get(%s) ctxlang=%q [type=%s sid=%q lang=%q]", hi, key, ctxLg, typeNames[rc.pfx], rc.sid, rc.lang))
			want, ok := ref.get(rc, ctxLg, key)
			lgEff := rc.lang
			if lgEff == "" {
				lgEff = ctxLg
			}
			if ok {
				readHits++
				if written[refKey(rc.pfx, rc.sid, key, "")] > 1 || written[refKey(rc.pfx, rc.sid, key, lgEff)] > 1 {
					o.Probes["read_after_overwrite"]++
				}
			} else {
				o.Probes["read_of_unwritten_key"]++
			}
			if langed(rc.pfx) && lgEff != "" && ok {
				fellBack++
				if _, tr := ref.m[refKey(rc.pfx, rc.sid, key, lgEff)]; !tr {
					o.Faults["lookup_miss"]++
					o.Probes["fallback_to_default_entry"]++
				} else {
					o.Probes["translation_hit"]++
				}
			}
			for _, m := range meds {
				if !syncMem(m) {
					continue
				}
				if key == c10LongKey && m.kind == world.BackFsBin {
					continue
				}
				if m.tooLong[refKey(rc.pfx, rc.sid, key, "")] {
					continue
				}
				got, err := m.handles[hidx(m)].Get(ctxWithLang(ctxLg), []byte(key))
				if !ok && err != nil && errors.Is(err, syscall.ENAMETOOLONG) {
					continue // never written and not writable on this backend in this context: not a key it accepts
				}
				if ok {
					if err != nil {
						return fail("get-lost-value", i, "%s on %s failed (%v); the latest successful write was %s", trace[len(trace)-1], m.name, err, shortVal(want))
					}
					if !bytes.Equal(got, want) {
						return fail("get-wrong-value", i, "%s on %s returned %s; the latest successful write was %s", trace[len(trace)-1], m.name, shortVal(got), shortVal(want))
					}
					if reuseBuffers {
						// ... and does what it likes with the slice a Get handed out
						for j := range got {
							got[j] = '%'
						}
						o.Faults["caller_buffer_reuse"]++
					}
				} else {
					if err == nil {
						return fail("get-of-unwritten", i, "%s on %s returned %q for a key never written", trace[len(trace)-1], m.name, got)
					}
					if !db.IsNotFound(err) {
						return fail("notfound-not-recognisable", i, "%s on %s: error for a key never written is not recognised by db.IsNotFound: %v", trace[len(trace)-1], m.name, err)
					}
				}
			}
		case 6: // Dump on the filesystem backends
			if rc.pfx == 0 {
				continue
			}
			trace = append(trace, fmt.Sprintf("h%d.Dump(%q) [type=%s sid=%q lang=%q]", hi, dumpPfx, typeNames[rc.pfx], rc.sid, rc.lang))
			if langed(rc.pfx) {
				// how translated entries appear in a listing is not specified (one key, several entries) and is
				// not compared. What is: a key that has a default-language entry is a stored key with that
				// prefix, so it is listed - whatever else the directory holds next to it - and with the value
				// a read in the same context returns
				if sessioned(rc.pfx) && rc.sid == "" {
					continue
				}
				for _, m := range meds {
					if m.kind != world.BackFs && m.kind != world.BackFsBin {
						continue
					}
					got := map[string][]byte{}
					h := m.handles[hidx(m)]
					pm, pat := world.Guard(func() {
						d, err := h.Dump(context.Background(), []byte(dumpPfx))
						if err != nil {
							return
						}
						for n := 0; n < 1000; n++ {
							k, v := d.Next(context.Background())
							if k == nil {
								break
							}
							got[string(k)] = v
						}
						d.Close()
					})
					if pm != "" {
						return fail("panic:"+pat, i, "%s on %s panicked: %s", trace[len(trace)-1], m.name, pm)
					}
					for _, k := range c10Keys {
						if !strings.HasPrefix(k, dumpPfx) {
							continue
						}
						if _, ok := ref.m[refKey(rc.pfx, rc.sid, k, "")]; !ok {
							continue
						}
						if m.tooLong[refKey(rc.pfx, rc.sid, k, "")] || (k == c10LongKey && m.kind == world.BackFsBin) {
							continue
						}
						v, ok := got[k]
						if !ok {
							return fail("dump-missing", i, "%s on %s did not list key %q, which has a default-language entry (listed %v)", trace[len(trace)-1], m.name, k, sortedKeys(got))
						}
						if want, wok := ref.get(rc, "", k); wok && !bytes.Equal(v, want) {
							return fail("dump-wrong-value", i, "%s on %s listed key %q with value %s, a read in the same context returns %s", trace[len(trace)-1], m.name, k, shortVal(v), shortVal(want))
						}
					}
					o.Probes["dump_of_translated_type_compared_for_default_entries"]++
				}
				continue
			}
			if sessioned(rc.pfx) && rc.sid == "" {
				// without a session the listing addresses the raw key space of all sessions: not specified, not compared
				o.Probes["dump_context_skipped"]++
				continue
			}
			if !sessioned(rc.pfx) && rc.sid != "" {
				// the session on the handle does not apply to this type (reads ignore it): the listing is that of the type
				o.Probes["dump_unsessioned_type_with_session_selected"]++
			}
			want := map[string][]byte{}
			for _, k := range c10Keys {
				if strings.HasPrefix(k, dumpPfx) {
					if v, ok := ref.m[refKey(rc.pfx, rc.sid, k, "")]; ok {
						want[k] = v
					}
				}
			}
			for _, m := range meds {
				if m.kind != world.BackFs && m.kind != world.BackFsBin {
					continue
				}
				got := map[string][]byte{}
				var dup string
				h := m.handles[hidx(m)]
				pm, pat := world.Guard(func() {
					d, err := h.Dump(context.Background(), []byte(dumpPfx))
					if err != nil {
						return
					}
					for n := 0; n < 1000; n++ {
						k, v := d.Next(context.Background())
						if k == nil {
							break
						}
						if _, ok := got[string(k)]; ok {
							dup = string(k)
						}
						got[string(k)] = v
					}
					d.Close()
				})
				if pm != "" {
					return fail("panic:"+pat, i, "%s on %s panicked: %s", trace[len(trace)-1], m.name, pm)
				}
				if dup != "" {
					return fail("dump-duplicate", i, "%s on %s listed key %q twice", trace[len(trace)-1], m.name, dup)
				}
				for _, k := range sortedKeys(want) {
					if m.tooLong[refKey(rc.pfx, rc.sid, k, "")] || (k == c10LongKey && m.kind == world.BackFsBin) {
						continue
					}
					v, ok := got[k]
					if !ok {
						return fail("dump-missing", i, "%s on %s did not list key %q (listed %v)", trace[len(trace)-1], m.name, k, sortedKeys(got))
					}
					if !bytes.Equal(v, want[k]) {
						return fail("dump-wrong-value", i, "%s on %s listed key %q with value %s, stored %s", trace[len(trace)-1], m.name, k, shortVal([]byte(v)), shortVal([]byte(want[k])))
					}
				}
				for _, k := range sortedKeys(got) {
					if _, ok := want[k]; !ok {
						return fail("dump-extra", i, "%s on %s listed key %q which is not a stored key with that prefix (expected %v)", trace[len(trace)-1], m.name, k, sortedKeys(want))
					}
				}
				o.Probes["dump_compared"]++
			}
		case 7: // reopen
			trace = append(trace, fmt.Sprintf("h%d.reopen", hi))
			for _, m := range meds {
				if m.kind == world.BackMem {
					continue
				}
				h, err := m.open()
				if err != nil {
					panic("reopen failed: " + err.Error())
				}
				m.handles[hidx(m)] = h
			}
			*rc = newRefCtx()
			o.Faults["reopen"]++
		case 8: // Close on a handle that stays in use (engine.Finish closes the resource's store after every request)
			trace = append(trace, fmt.Sprintf("h%d.Close (handle stays in use)", hi))
			for _, m := range meds {
				if m.kind == world.BackPg {
					continue // closing a Postgres handle ends its connection: C13's business
				}
				if !syncMem(m) {
					continue
				}
				pm, pat := world.Guard(func() { m.handles[hidx(m)].Close(context.Background()) })
				if pm != "" {
					return fail("panic:"+pat, i, "%s on %s panicked: %s", trace[len(trace)-1], m.name, pm)
				}
			}
			// the type, session and language selected on the handle are not the connection's: they stay
			o.Faults["close_in_use"]++
		case 9: // Put on the file-system backends while the disk fills up: the write stores a part and fails
			if rc.pfx == 0 || rc.pfx&rc.lock != 0 {
				trace = append(trace, fmt.Sprintf("h%d.Put(%s) on a full disk [skipped: no type selected or type locked]", hi, key))
				continue
			}
			valN++
			val := []byte(fmt.Sprintf("w%d-%s-%s-%s", valN, typeNames[rc.pfx], key, strings.Repeat("z", t.Range(0, 40))))
			fits := t.Int(len(val))
			trace = append(trace, fmt.Sprintf("h%d.Put(%s,%q) ctxlang=%q while the disk takes only %d more bytes [type=%s sid=%q lang=%q]", hi, key, val, ctxLg, fits, typeNames[rc.pfx], rc.sid, rc.lang))
			want, had := ref.get(rc, ctxLg, key)
			for _, m := range meds {
				if m.disk == nil || (key == c10LongKey && m.kind == world.BackFsBin) || m.tooLong[refKey(rc.pfx, rc.sid, key, "")] {
					continue
				}
				h := m.handles[hidx(m)]
				before := m.disk.WriteFails
				m.disk.FailNextWrite, m.disk.FailShort = true, fits
				var err error
				pm, pat := world.Guard(func() { err = h.Put(ctxWithLang(ctxLg), []byte(key), append([]byte{}, val...)) })
				m.disk.FailNextWrite = false
				if pm != "" {
					return fail("panic:"+pat, i, "%s on %s panicked: %s", trace[len(trace)-1], m.name, pm)
				}
				if m.disk.WriteFails == before {
					// refused before anything was written (a name the file system does not take): no fault was injected
					if err == nil {
						panic("C10 harness: a Put that writes nothing returned no error")
					}
					continue
				}
				o.Faults["fs_write_enospc"]++
				got, gerr := h.Get(ctxWithLang(ctxLg), []byte(key))
				if err == nil {
					// acknowledged although the disk refused part of it: only right if the value is there, whole
					if gerr != nil || !bytes.Equal(got, val) {
						return fail("failed-write-acknowledged", i, "%s on %s returned no error although the disk stored only %d of %d bytes; Get now returns %s (err %v)", trace[len(trace)-1], m.name, fits, len(val), shortVal(got), gerr)
					}
					panic("C10 harness: a backend that completes a write after ENOSPC is not modelled")
				}
				// reported as failed: it is not the latest successful write, the one before it still is
				if had && (gerr != nil || !bytes.Equal(got, want)) {
					return fail("failed-write-changed-value", i, "%s on %s failed (%v), as it should; Get now returns %s (err %v), the latest successful write was %s", trace[len(trace)-1], m.name, err, shortVal(got), gerr, shortVal(want))
				}
				if !had && gerr == nil {
					return fail("failed-write-left-value", i, "%s on %s failed (%v), as it should; Get now returns %s for a key that was never written successfully", trace[len(trace)-1], m.name, err, shortVal(got))
				}
			}
		}
		o.States = append(o.States, h64(trace[len(trace)-1]))
	}
	// one run in 400: a listing of several thousand keys (a session's user data can be that large) yields every one of them
	if t.Chance(1, 400) {
		n := t.Range(4090, 4300)
		for _, m := range meds {
			if m.kind != world.BackFs && m.kind != world.BackFsBin {
				continue
			}
			h, err := m.open()
			if err != nil {
				panic("cannot open backend " + m.name + ": " + err.Error())
			}
			h.SetPrefix(tUser)
			h.SetSession("mass")
			for k := 0; k < n; k++ {
				if err := h.Put(context.Background(), []byte(fmt.Sprintf("m%05d", k)), []byte(fmt.Sprintf("mv%d", k))); err != nil {
					panic("C10 harness: mass write failed on " + m.name + ": " + err.Error())
				}
			}
			seen := map[string]bool{}
			dup := ""
			pm, pat := world.Guard(func() {
				d, err := h.Dump(context.Background(), []byte("m"))
				if err != nil {
					return
				}
				for k := 0; k < 3*n; k++ {
					kk, vv := d.Next(context.Background())
					if kk == nil {
						break
					}
					if seen[string(kk)] {
						dup = string(kk)
					}
					seen[string(kk)] = true
					if want := "mv" + strings.TrimLeft(strings.TrimPrefix(string(kk), "m"), "0"); string(vv) != want && !(string(kk) == "m00000" && string(vv) == "mv0") {
						dup = string(kk) + " (wrong value " + string(vv) + ")"
					}
				}
				d.Close()
			})
			trace = append(trace, fmt.Sprintf("mass listing of %d keys on %s", n, m.name))
			if pm != "" {
				return fail("panic:"+pat, nops, "%s panicked: %s", trace[len(trace)-1], pm)
			}
			if dup != "" {
				return fail("dump-duplicate", nops, "%s listed key %s twice or wrongly", trace[len(trace)-1], dup)
			}
			if len(seen) != n {
				return fail("dump-missing", nops, "%s yielded %d keys", trace[len(trace)-1], len(seen))
			}
			o.Probes["mass_listing_compared"]++
		}
	}
	o.Counts["operations"] = len(trace)
	o.Counts["sim_ticks"] = len(trace)
	o.Probes["locked_write_refused"] += lockedRefused
	o.Nontrivial = readHits > 0 && (fellBack > 0 || lockedRefused > 0 || overwritten > 0)
	if c.WantScenario {
		o.Scenario = map[string]interface{}{"ops": trace}
	}
	o.TraceHash = h64(strings.Join(trace, ";"))
	return o
}

// shortVal quotes a value for a trace line; long ones are abbreviated.
func shortVal(v []byte) string {
	if len(v) <= 64 {
		return fmt.Sprintf("%q", v)
	}
	return fmt.Sprintf("%q...(%d bytes)", v[:24], len(v))
}
