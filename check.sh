#!/bin/bash
# usage: check.sh <property id> <quick|thorough>
# exit 0: property held on everything explored (KNOWN-FINDING lines allowed)
# exit 1: VIOLATION property=<id> replay=<path> printed
# exit 2: infrastructure trouble (build failure, watchdog, nondeterminism) - never a violation
set -u
ID="${1:?property id}"
TIER="${2:-${VERIF_TIER:-quick}}"
VERIF="$(cd "$(dirname "$0")" && pwd)"
export VERIF_DIR="$VERIF"
export GOFLAGS=-mod=mod GOPROXY=off GOSUMDB=off GOTOOLCHAIN=local
export VERIF_SEED="${VERIF_SEED:-1}"

"$VERIF/build.sh" "$ID" || { echo "build failed (infrastructure, not a violation)" >&2; exit 2; }

if [ "$TIER" = "thorough" ]; then WD=5400; else WD=600; fi
BIN="${VISIM_BIN:-$VERIF/bin}/visim"
timeout -k 10 "$WD" "$BIN" check "$ID" --tier "$TIER" --seed "$VERIF_SEED"
rc=$?
if [ $rc -eq 124 ] || [ $rc -eq 137 ]; then
  echo "watchdog: check $ID exceeded ${WD}s (infrastructure, not a violation)" >&2
  exit 2
fi
if [ $rc -ne 0 ] && [ $rc -ne 1 ]; then exit 2; fi
exit $rc
