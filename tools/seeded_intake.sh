#!/bin/bash
# Takes a change made by an independent sub-agent in a scratch worktree, confirms it
# (suite passes with it, demonstration fails with it and passes without it), stores it
# under /verif/seeded/<name>/ and runs the named checks against it.
# usage: seeded_intake.sh <worktree> <name> <property id> <check id>...
set -u
VERIF="$(cd "$(dirname "$0")/.." && pwd)"
WT="$1"; NAME="$2"; PROP="$3"; shift 3
export GOFLAGS=-mod=mod GOPROXY=off GOSUMDB=off GOTOOLCHAIN=local
D="$VERIF/seeded/$NAME"; mkdir -p "$D/demo"
cd "$WT" || exit 2
git diff > "$D/patch.diff"
if [ ! -s "$D/patch.diff" ]; then echo "no change in $WT"; exit 2; fi
DEMOS="$(git ls-files --others --exclude-standard | grep '_mutdemo_test.go$')"
for f in $DEMOS; do mkdir -p "$D/demo/$(dirname $f)"; cp "$f" "$D/demo/$f"; done
PKGS="$(for f in $DEMOS; do echo ./$(dirname $f); done | sort -u | tr '\n' ' ')"
echo "demo packages: $PKGS"
suite_with="$(go test -vet=off -count=1 ./... 2>&1 | grep -v 'gdbm\|no test files\|dbconvert' | grep -v '^ok' | grep -v mutdemo | head -5)"
demo_with="$(go test -vet=off -count=1 -run 'Mut|mut|Demo|demo' $PKGS 2>&1 | tail -3)"; go test -vet=off -count=1 $PKGS >/dev/null 2>&1; rc_with=$?
git apply -R "$D/patch.diff"
go test -vet=off -count=1 $PKGS >/dev/null 2>&1; rc_without=$?
git apply "$D/patch.diff"
# the suite without the demo files
for f in $DEMOS; do mv "$f" "$f.off"; done
go test -vet=off -count=1 ./... > /tmp/suite.$$ 2>&1
suite_fail="$(grep -v 'gdbm\|no test files\|dbconvert\|build failed' /tmp/suite.$$ | grep -c '^FAIL[[:space:]]\|^--- FAIL')"
for f in $DEMOS; do mv "$f.off" "$f"; done
rm -f /tmp/suite.$$
echo "suite failures with change (demo files aside): $suite_fail; demo with change rc=$rc_with (want !=0); demo without change rc=$rc_without (want 0)"
ok=1
[ "$suite_fail" = "0" ] || ok=0
[ $rc_with -ne 0 ] || ok=0
[ $rc_without -eq 0 ] || ok=0
if [ $ok -ne 1 ]; then echo "NOT CONFIRMED: $NAME"; fi
RES="$("$VERIF/tools/mutant.sh" "$D/patch.diff" "$@" 2>&1 | tail -$(( $# + 1 )))"
echo "$RES"
python3 - "$D" "$NAME" "$PROP" "$ok" "$suite_fail" "$rc_with" "$rc_without" "$RES" "$WT" <<'PY'
import json,sys,os
d,name,prop,ok,sf,rw,rwo,res,wt=sys.argv[1:10]
rep=""
try: rep=open(wt+".report.md").read()
except Exception: pass
open(os.path.join(d,"report.md"),"w").write(rep)
meta={"name":name,"breaks_property":prop,"confirmed":ok=="1",
 "needs_to_manifest":"see report.md (written by the sub-agent that made the change)",
 "what_was_run":{"suite_with_change_failures_excluding_gdbm":int(sf),"demo_with_change_exit":int(rw),"demo_without_change_exit":int(rwo),
   "commands":["go test -vet=off -count=1 ./... (with change, demo files moved aside)","go test -vet=off -count=1 <demo packages> (with change)","git apply -R patch.diff; go test ... <demo packages>; git apply patch.diff (without change)","tools/mutant.sh patch.diff <checks> (scratch worktree, quick tier)"]},
 "checks_result":res.strip().splitlines()}
json.dump(meta,open(os.path.join(d,"meta.json"),"w"),indent=1)
PY
