#!/bin/bash
# Rebuilds the simulator against the current working tree of /repo.
# db/fs is compiled against visim/simfs through an overlay made from the current sources.
set -eu
VERIF="$(cd "$(dirname "$0")" && pwd)"
export GOFLAGS=-mod=mod GOPROXY=off GOSUMDB=off GOTOOLCHAIN=local
mkdir -p "$VERIF/bin"
exec 9>"$VERIF/bin/.build.lock"
flock 9
cd "$VERIF/sim"
cp /repo/go.sum "$VERIF/sim/go.sum"
SCR="$(mktemp -d "${TMPDIR:-/tmp}/visim-ov.XXXXXX")"
trap 'rm -rf "$SCR"' EXIT
go build -o "$VERIF/bin/fsrewrite" ./cmd/fsrewrite
"$VERIF/bin/fsrewrite" /repo/db/fs "$SCR/fs" "$SCR/overlay.json"
go build -overlay "$SCR/overlay.json" -o "$VERIF/bin/visim" ./cmd/visim
if [ "${1:-}" = "C19" ] || [ "${1:-}" = "all" ]; then
  if [ -d "$VERIF/sim/cmd/visimrace" ]; then
    go build -race -overlay "$SCR/overlay.json" -o "$VERIF/bin/visim-race" ./cmd/visimrace
  fi
fi
